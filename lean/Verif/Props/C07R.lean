import Verif.Props.C08
set_option linter.unusedSimpArgs false
set_option linter.unusedVariables false
/-!
# C07 — the candidate scenarios of `PhyBo._get_GLS` (restriction / internal weighted mode) replay to the pattern

`candsR_sound`: every candidate that the bottom-up combination of `_get_GLS` can build – before any
filtering by restriction value, weight or gains per lineage – is sound (events strictly below the
node; replay from any compatible state reproduces all known leaves).  The proof reduces the one
difference to `get_gls`, events on children whose leaves are all missing, to `combine_sound`: an
undetermined candidate may be relabelled present or absent without losing soundness.
`C07_restriction`: hence whatever the routine selects among its root scenarios replays to the pattern.
-/
namespace Verif.GL

theorem sound_relabel (pat : Nat → Int) (t : GTree) (c : Cand) (v : Int) (h : Sound pat c t) (hc : c.1 = -1) :
    Sound pat (v, c.2) t :=
  ⟨h.1, fun σ _ => h.2 σ ⟨fun h1 => by omega, fun h0 => by omega⟩⟩

def cfg0 : Cfg := ⟨(1, 1), 0, true, false⟩

theorem count_relabel_self (v : Int) (hv : v ≠ -1) : ∀ (combo : List Cand),
    count v ((relabel v combo).map (·.1)) = count v (combo.map (·.1)) + count (-1) (combo.map (·.1)) ∧
    count (-1) ((relabel v combo).map (·.1)) = 0 ∧
    ∀ u : Int, u ≠ v → u ≠ -1 → count u ((relabel v combo).map (·.1)) = count u (combo.map (·.1))
  | [] => by simp [relabel, count]
  | c :: cs => by
    obtain ⟨h1, h2, h3⟩ := count_relabel_self v hv cs
    have e : relabel v (c :: cs) = (if c.1 == -1 then (v, c.2) else c) :: relabel v cs := rfl
    simp only [e, List.map_cons, count_cons]
    have hv' : ¬ ((-1 : Int) = v) := fun e => hv e.symm
    by_cases hc : c.1 = -1
    · have hb : (c.1 == -1) = true := by simpa using hc
      simp only [hb, if_true, hc]
      refine ⟨by simp [hv, hv', h1]; omega, by simp [hv, h2], ?_⟩
      intro u hu1 hu2
      have : ¬ v = u := fun e => hu1 e.symm
      have h4 : ¬ ((-1 : Int) = u) := fun e => hu2 e.symm
      simp [this, h4, h3 u hu1 hu2]
    · have hb : (c.1 == -1) = false := by simpa using hc
      simp only [hb, Bool.false_eq_true, if_false]
      refine ⟨by simp [hc, h1]; omega, by simp [hc, h2], ?_⟩
      intro u hu1 hu2
      rw [h3 u hu1 hu2]

theorem relabel_stories (v : Int) (combo : List Cand) : (relabel v combo).flatMap (·.2) = combo.flatMap (·.2) := by
  induction combo with
  | nil => rfl
  | cons c cs ih =>
    have e : relabel v (c :: cs) = (if c.1 == -1 then (v, c.2) else c) :: relabel v cs := rfl
    rw [e]
    simp only [List.flatMap_cons, ih]
    split <;> rfl

theorem relabel_length (v : Int) (combo : List Cand) : (relabel v combo).length = combo.length := by
  simp [relabel]

/-- every candidate of the restriction-mode combination is a candidate of `combine` (shipped order) for
the same or a relabelled choice of child candidates -/
theorem combineR_sub (names : List Nat) (combo : List Cand) (hst : ∀ c ∈ combo, StateOk c.1) (c : Cand)
    (hc : c ∈ combineR names combo) :
    c ∈ combine cfg0 names combo ∨ c ∈ combine cfg0 names (relabel 1 combo) ∨ c ∈ combine cfg0 names (relabel 0 combo) := by
  have hst' : ∀ x ∈ combo.map (·.1), StateOk x := by
    intro x hx; obtain ⟨c, hc, rfl⟩ := List.mem_map.mp hx; exact hst c hc
  have h3 := count_three _ hst'
  have hl : (combo.map (·.1)).length = combo.length := by simp
  unfold combineR at hc
  simp only at hc
  by_cases h1 : count (1 : Int) (combo.map (·.1)) + count (-1 : Int) (combo.map (·.1)) = (combo.map (·.1)).length
  · left
    simp only [h1, beq_self_eq_true, if_true] at hc
    unfold combine
    simp only [cfg0, Bool.false_and, Bool.false_eq_true, if_false, h1, beq_self_eq_true, if_true]
    exact hc
  · have hb1 : (count (1 : Int) (combo.map (·.1)) + count (-1 : Int) (combo.map (·.1)) == (combo.map (·.1)).length) = false := by
      simpa using h1
    simp only [hb1, Bool.false_eq_true, if_false] at hc
    by_cases h0 : count (0 : Int) (combo.map (·.1)) + count (-1 : Int) (combo.map (·.1)) = (combo.map (·.1)).length
    · left
      simp only [h0, beq_self_eq_true, if_true] at hc
      unfold combine
      simp only [cfg0, Bool.false_and, Bool.false_eq_true, if_false, hb1, h0, beq_self_eq_true, if_true]
      exact hc
    · have hb0 : (count (0 : Int) (combo.map (·.1)) + count (-1 : Int) (combo.map (·.1)) == (combo.map (·.1)).length) = false := by
        simpa using h0
      have hM : ¬ count (-1 : Int) (combo.map (·.1)) = (combo.map (·.1)).length := by omega
      have hbM : (count (-1 : Int) (combo.map (·.1)) == (combo.map (·.1)).length) = false := by simpa using hM
      simp only [hb0, hbM, Bool.false_eq_true, if_false, List.mem_cons, List.mem_singleton, List.not_mem_nil,
        or_false] at hc
      -- the relabelled choices are mixed as well
      have mixed : ∀ v : Int, v = 1 ∨ v = 0 →
          combine cfg0 names (relabel v combo) =
            [(1, combo.flatMap (·.2) ++ ((names.zip ((relabel v combo).map (·.1))).filter (·.2 == 0)).map fun p => (p.1, (0 : Int))),
             (0, combo.flatMap (·.2) ++ ((names.zip ((relabel v combo).map (·.1))).filter (·.2 == 1)).map fun p => (p.1, (1 : Int)))] := by
        intro v hv
        have hvm : v ≠ -1 := by rcases hv with rfl | rfl <;> omega
        obtain ⟨c1, c2, c3⟩ := count_relabel_self v hvm combo
        have hlen : ((relabel v combo).map (·.1)).length = (combo.map (·.1)).length := by simp [relabel_length]
        unfold combine
        simp only [cfg0, Bool.false_and, Bool.false_eq_true, if_false, relabel_stories, hlen]
        rcases hv with rfl | rfl
        · have e0 := c3 0 (by omega) (by omega)
          have n1 : ¬ (count (1 : Int) ((relabel 1 combo).map (·.1)) + count (-1 : Int) ((relabel 1 combo).map (·.1)) = (combo.map (·.1)).length) := by
            rw [c1, c2]; omega
          have n0 : ¬ (count (0 : Int) ((relabel 1 combo).map (·.1)) + count (-1 : Int) ((relabel 1 combo).map (·.1)) = (combo.map (·.1)).length) := by
            rw [e0, c2]; omega
          have nM : ¬ (count (-1 : Int) ((relabel 1 combo).map (·.1)) = (combo.map (·.1)).length) := by
            rw [c2]; omega
          rw [if_neg (by simpa using n1), if_neg (by simpa using n0), if_neg (by simpa using nM)]
        · have e1 := c3 1 (by omega) (by omega)
          have n1 : ¬ (count (1 : Int) ((relabel 0 combo).map (·.1)) + count (-1 : Int) ((relabel 0 combo).map (·.1)) = (combo.map (·.1)).length) := by
            rw [e1, c2]; omega
          have n0 : ¬ (count (0 : Int) ((relabel 0 combo).map (·.1)) + count (-1 : Int) ((relabel 0 combo).map (·.1)) = (combo.map (·.1)).length) := by
            rw [c1, c2]; omega
          have nM : ¬ (count (-1 : Int) ((relabel 0 combo).map (·.1)) = (combo.map (·.1)).length) := by
            rw [c2]; omega
          rw [if_neg (by simpa using n1), if_neg (by simpa using n0), if_neg (by simpa using nM)]
      rcases hc with rfl | rfl
      · right; left; rw [mixed 1 (Or.inl rfl)]; simp
      · right; right; rw [mixed 0 (Or.inr rfl)]; simp

theorem relabel_ch (v : Int) (ch : Ch) :
    relabel v (ch.map (·.2)) = (ch.map fun p => (p.1, (if p.2.1 == -1 then (v, p.2.2) else p.2))).map (·.2) := by
  simp [relabel, List.map_map, Function.comp_def]

/-- **the combination step of the restriction mode is sound** -/
theorem combineR_sound (pat : Nat → Int) (n : Nat) (ch : Ch)
    (hnd : (ch.flatMap fun p => nodeNames p.1).Nodup) (hS : ∀ p ∈ ch, Sound pat p.2 p.1)
    (hst : ∀ p ∈ ch, StateOk p.2.1)
    (c : Cand) (hc : c ∈ combineR (ch.map (·.1.name)) (ch.map (·.2))) :
    Sound pat c (.node n (ch.map (·.1))) := by
  have hst' : ∀ c ∈ ch.map (·.2), StateOk c.1 := by
    intro c hc; obtain ⟨p, hp, rfl⟩ := List.mem_map.mp hc; exact hst p hp
  -- the relabelled children
  have relS : ∀ v : Int, ∃ ch' : Ch, ch'.map (·.1) = ch.map (·.1) ∧ ch'.map (·.2) = relabel v (ch.map (·.2)) ∧
      (ch'.flatMap fun p => nodeNames p.1).Nodup ∧ ∀ p ∈ ch', Sound pat p.2 p.1 := by
    intro v
    refine ⟨ch.map fun p => (p.1, (if p.2.1 == -1 then (v, p.2.2) else p.2)), by simp [List.map_map, Function.comp_def],
      (relabel_ch v ch).symm, by simpa [List.flatMap_map] using hnd, ?_⟩
    intro p hp
    obtain ⟨q, hq, rfl⟩ := List.mem_map.mp hp
    simp only
    by_cases hm : q.2.1 = -1
    · have : (q.2.1 == -1) = true := by simpa using hm
      simp only [this, if_true]
      exact sound_relabel pat q.1 q.2 v (hS q hq) hm
    · have : (q.2.1 == -1) = false := by simpa using hm
      simp only [this, Bool.false_eq_true, if_false]
      exact hS q hq
  rcases combineR_sub _ _ hst' c hc with h | h | h
  · exact combine_sound cfg0 pat n ch hnd hS c h
  · obtain ⟨ch', e1, e2, e3, e4⟩ := relS 1
    have hn : ch'.map (·.1.name) = ch.map (·.1.name) := by
      have := congrArg (List.map GTree.name) e1
      simpa [List.map_map, Function.comp_def] using this
    have := combine_sound cfg0 pat n ch' e3 e4 c (by rw [hn, e2]; exact h)
    rwa [e1] at this
  · obtain ⟨ch', e1, e2, e3, e4⟩ := relS 0
    have hn : ch'.map (·.1.name) = ch.map (·.1.name) := by
      have := congrArg (List.map GTree.name) e1
      simpa [List.map_map, Function.comp_def] using this
    have := combine_sound cfg0 pat n ch' e3 e4 c (by rw [hn, e2]; exact h)
    rwa [e1] at this

theorem candsRL_eq (pat : Nat → Int) (ts : List GTree) : candsRL pat ts = ts.map (candsR pat) := by
  induction ts with
  | nil => simp [candsRL]
  | cons t ts ih => simp [candsRL, ih]

theorem combineR_state (names : List Nat) (combo : List Cand) : ∀ c ∈ combineR names combo, StateOk c.1 := by
  intro c hc
  unfold combineR at hc
  simp only at hc
  split at hc
  · simp only [List.mem_singleton] at hc; subst hc; exact Or.inl rfl
  · split at hc
    · simp only [List.mem_singleton] at hc; subst hc; exact Or.inr (Or.inl rfl)
    · split at hc
      · simp only [List.mem_singleton] at hc; subst hc; exact Or.inr (Or.inr rfl)
      · simp only [List.mem_cons, List.mem_singleton, List.not_mem_nil, or_false] at hc
        rcases hc with rfl | rfl
        · exact Or.inr (Or.inl rfl)
        · exact Or.inl rfl

/-- **the bottom-up invariant of the restriction mode**: every candidate is sound and has a state in {1,0,-1} -/
theorem candsR_sound (pat : Nat → Int) (hpat : ∀ n, pat n = 1 ∨ pat n = 0 ∨ pat n = -1) :
    ∀ (t : GTree), (nodeNames t).Nodup → ∀ c ∈ candsR pat t, Sound pat c t ∧ StateOk c.1
  | .leaf n, _, c, hc => by
    simp only [candsR, List.mem_singleton] at hc
    subst hc
    refine ⟨⟨(by intro p hp; cases hp), ?_⟩, hpat n⟩
    intro σ hσ p hp hk
    simp only [below, List.mem_singleton] at hp
    subst hp
    simp only at hk ⊢
    rcases hpat n with h | h | h
    · rw [h]; exact hσ.1 h
    · rw [h]; exact hσ.2 h
    · exact absurd h hk
  | .node n cs, hnd, c, hc => by
    simp only [candsR, List.mem_flatMap] at hc
    obtain ⟨combo, hcombo, hcc⟩ := hc
    rw [candsRL_eq] at hcombo
    obtain ⟨hlen, hmem⟩ := mem_product _ combo hcombo
    simp only [List.length_map] at hlen
    have hndL : (nodeNamesL cs).Nodup := by
      simp only [nodeNames] at hnd; exact (List.nodup_cons.mp hnd).2
    let ch : Ch := cs.zip combo
    have hfst : ch.map (·.1) = cs := by
      simp only [ch]; exact List.map_fst_zip (by omega)
    have hsnd : ch.map (·.2) = combo := by
      simp only [ch]; exact List.map_snd_zip (by omega)
    have hnames : cs.map GTree.name = ch.map (·.1.name) := by
      rw [← hfst]; simp
    have hndch : (ch.flatMap fun p => nodeNames p.1).Nodup := by
      have : (ch.flatMap fun p => nodeNames p.1) = (ch.map (·.1)).flatMap nodeNames := by
        simp [List.flatMap_map]
      rw [this, hfst, ← nodeNamesL_eq]; exact hndL
    have hS : ∀ p ∈ ch, Sound pat p.2 p.1 ∧ StateOk p.2.1 := by
      intro p hp
      have hpc : p.2 ∈ candsR pat p.1 := by
        have hz : (candsR pat p.1, p.2) ∈ (cs.map (candsR pat)).zip combo := by
          have : (cs.map (candsR pat)).zip combo = ch.map fun q => (candsR pat q.1, q.2) := by
            simp only [ch, List.zip_map_left]
            rfl
          rw [this]; exact List.mem_map.mpr ⟨p, hp, rfl⟩
        exact hmem _ hz
      have hpt : p.1 ∈ cs := hfst ▸ List.mem_map.mpr ⟨p, hp, rfl⟩
      have hndp : (nodeNames p.1).Nodup := nodup_child ch hndch p hp
      exact candsR_sound pat hpat p.1 hndp p.2 hpc
    have := combineR_sound pat n ch hndch (fun p hp => (hS p hp).1) (fun p hp => (hS p hp).2) c
      (by rw [← hnames, hsnd]; exact hcc)
    rw [hfst] at this
    exact ⟨this, combineR_state _ _ c hcc⟩
termination_by t => sizeOf t
decreasing_by
  all_goals simp_wf
  have : sizeOf p.1 < sizeOf cs := List.sizeOf_lt_of_mem hpt
  omega

/-- **C07 (restriction and internal weighted mode)**: any of the root scenarios – and therefore whatever
the routine selects among them by restriction value, weight, gains per lineage, minimal gains or tip
counts – replays to the pattern and names only nodes of the tree. -/
theorem C07_restriction (pat : Nat → Int) (hpat : ∀ n, pat n = 1 ∨ pat n = 0 ∨ pat n = -1)
    (t : GTree) (hnd : (nodeNames t).Nodup) (story : Story) (h : story ∈ rootCandsR pat t) :
    Good pat (replay story t) ∧ ∀ p ∈ story, p.1 ∈ nodeNames t := by
  simp only [rootCandsR, List.mem_map] at h
  obtain ⟨c, hc, rfl⟩ := h
  obtain ⟨⟨hK, hG⟩, _⟩ := candsR_sound pat hpat t hnd c hc
  have hnn : ∀ e : Int, (t.name, e) ∉ c.2 := fun e he => name_not_desc t hnd (hK _ he)
  by_cases h1 : c.1 = 1
  · simp only [h1, beq_self_eq_true, if_true]
    constructor
    · unfold replay
      have hl : lookupM ((t.name, (1 : Int)) :: c.2) t.name = some 1 := by
        unfold lookupM
        simp
      rw [hl]
      simp only [Option.getD_some]
      rw [below_congr t _ c.2 1 (by
        intro k hk
        apply lookupM_congr
        intro e
        simp only [List.mem_cons, Prod.mk.injEq]
        constructor
        · rintro (⟨rfl, _⟩ | h)
          · exact absurd hk (name_not_desc t hnd)
          · exact h
        · intro h; exact Or.inr h)]
      exact hG 1 ⟨fun _ => rfl, fun h => by omega⟩
    · intro p hp
      rcases List.mem_cons.mp hp with hp | hp
      · rw [hp]; exact name_mem_nodeNames t
      · exact desc_sub_nodeNames _ _ (hK p hp)
  · have hne : (c.1 == 1) = false := by simpa using h1
    simp only [hne, Bool.false_eq_true, if_false]
    constructor
    · unfold replay
      rw [lookupM_none c.2 t.name hnn]
      exact hG 0 ⟨fun h => absurd h h1, fun _ => rfl⟩
    · intro p hp; exact desc_sub_nodeNames _ _ (hK p hp)

end Verif.GL
