import Verif.Props.C09NJAdd
set_option linter.unusedSectionVars false
set_option linter.unusedSimpArgs false
set_option linter.unusedVariables false
/-!
# C09 — Neighbor-Joining on additive input: the whole run reproduces the input distances

`decode n rows` (Model/TreeBuild.lean) reads a tree matrix the way lingpy does – row `t` creates node
`n + t` – and lists, for every pair of leaves that meet in a node, the length of the path between them.

`C09_nj_path_sums`: if the input matrix is the metric of a weighted system of pairwise compatible
splits with positive weights (a tree metric with positive branch lengths), then for every pair of taxa
the path length in the tree `_neighbor` returns is the input distance.  Exact arithmetic (`ℚ`).

Invariant along the run (`InvW`): the current matrix is the metric of a split system on the live
clusters; every live cluster is a node of the decoded forest; the input distance of two leaves in
different clusters is `depth + depth + current distance of the clusters`; every recorded path length
is the input distance; every pair inside one cluster has been recorded.
-/
namespace Verif.TreeBuild
open Verif.Align Verif.Cluster ScoreOps ScoreLaws Verif.NJ

def Cl (st : NState ℚ) (x : Nat) : List Nat := st.clusters.getD x []

structure InvW (d0 : Nat → Nat → ℚ) (st : NState ℚ) (dec : Dec ℚ) (L : List (Split × ℚ))
    (idOf : Nat → Nat) (lvOf : Nat → List (Nat × ℚ)) : Prop where
  kpos : 1 ≤ st.clusters.length
  sys : System st.clusters.length L
  rep : Rep st.clusters.length st.matrix (dist L)
  tr : ∀ x < st.clusters.length, st.tracer.find? (fun p => p.1 == Cl st x) = some (Cl st x, idOf x)
  nd : ∀ x < st.clusters.length, dec.nodes.find? (fun p => p.1 == idOf x) = some (idOf x, lvOf x)
  lv : ∀ x < st.clusters.length, (lvOf x).map (·.1) = Cl st x
  cross : ∀ x < st.clusters.length, ∀ y < st.clusters.length, x ≠ y → ∀ p ∈ lvOf x, ∀ q ∈ lvOf y,
    d0 p.1 q.1 = p.2 + q.2 + dist L x y
  recd : ∀ e ∈ dec.dists, e.2 = d0 e.1.1 e.1.2
  cov : ∀ x < st.clusters.length, ∀ i ∈ Cl st x, ∀ j ∈ Cl st x, i ≠ j →
    ∃ v, ((i, j), v) ∈ dec.dists ∨ ((j, i), v) ∈ dec.dists
  fresh : ∀ p ∈ dec.nodes, p.1 < dec.next
  nxt : (st.tracer.map (·.2)).foldl max 0 + 1 = dec.next
  keys : ∀ p ∈ st.tracer, p.1 ≠ [] ∧ ∃ x < st.clusters.length, ∀ m ∈ p.1, m ∈ Cl st x
  ne : ∀ x < st.clusters.length, Cl st x ≠ []
  disj : ∀ x < st.clusters.length, ∀ y < st.clusters.length, x ≠ y → ∀ m ∈ Cl st x, m ∉ Cl st y

theorem foldl_max_append (l : List Nat) (a x : Nat) : (l ++ [x]).foldl max a = max (l.foldl max a) x := by
  simp [List.foldl_append]

theorem up_inj (b x y : Nat) (h : up b x = up b y) : x = y := by
  unfold up at h; split at h <;> split at h <;> omega

/-- every old index except the deleted one has a new index -/
theorem up_surj (k b x : Nat) (hb : b < k) (hx : x < k) (hxb : x ≠ b) : ∃ x', x' < k - 1 ∧ up b x' = x := by
  by_cases h : x < b
  · exact ⟨x, by omega, by simp [up, h]⟩
  · refine ⟨x - 1, by omega, ?_⟩
    unfold up
    have : ¬ x - 1 < b := by omega
    simp only [this, if_false]; omega

theorem mem_lv (lvx : List (Nat × ℚ)) (C : List Nat) (h : lvx.map (·.1) = C) (i : Nat) :
    i ∈ C ↔ ∃ hh, (i, hh) ∈ lvx := by
  rw [← h]
  simp

/-- **one join keeps the invariant** -/
theorem join_inv (d0 : Nat → Nat → ℚ) (st st' : NState ℚ) (dec : Dec ℚ) (L L' : List (Split × ℚ))
    (idOf : Nat → Nat) (lvOf : Nat → List (Nat × ℚ)) (hI : InvW d0 st dec L idOf lvOf)
    (ia ib : Nat) (hab : ia < ib) (hb : ib < st.clusters.length) (sA sB : ℚ)
    (hsys : System (st.clusters.length - 1) L')
    (hrep : Rep (st.clusters.length - 1) st'.matrix (dist L'))
    (hcl : st'.clusters = (List.range (st.clusters.length - 1)).map (fun x =>
        if up ib x = ia then Cl st ia ++ Cl st ib else Cl st (up ib x)))
    (htr : st'.tracer = st.tracer ++ [(Cl st ia ++ Cl st ib, (st.tracer.map (·.2)).foldl max 0 + 1)])
    (H1 : ∀ x < st.clusters.length - 1, ∀ y < st.clusters.length - 1, x ≠ y → up ib x ≠ ia → up ib y ≠ ia →
      dist L' x y = dist L (up ib x) (up ib y))
    (H2 : ∀ x < st.clusters.length - 1, ∀ y < st.clusters.length - 1, x ≠ y → up ib x = ia →
      sA + dist L' x y = dist L ia (up ib y) ∧ sB + dist L' x y = dist L ib (up ib y))
    (H3 : sA + sB = dist L ia ib) :
    InvW d0 st' (decStep dec (traceId st.tracer (Cl st ia), traceId st.tracer (Cl st ib), sA, sB)) L'
      (fun x => if up ib x = ia then dec.next else idOf (up ib x))
      (fun x => if up ib x = ia then
          (lvOf ia).map (fun p => (p.1, p.2 + sA)) ++ (lvOf ib).map (fun p => (p.1, p.2 + sB))
        else lvOf (up ib x)) := by
  have ha : ia < st.clusters.length := by omega
  have hk' : (st'.clusters).length = st.clusters.length - 1 := by rw [hcl]; simp
  have hC' : ∀ x < st.clusters.length - 1, Cl st' x =
      if up ib x = ia then Cl st ia ++ Cl st ib else Cl st (up ib x) := by
    intro x hx
    show st'.clusters.getD x [] = _
    rw [hcl, getD_map_range _ _ x _ hx]
  have hidA : traceId st.tracer (Cl st ia) = idOf ia := by
    unfold traceId; rw [hI.tr ia ha]; rfl
  have hidB : traceId st.tracer (Cl st ib) = idOf ib := by
    unfold traceId; rw [hI.tr ib hb]; rfl
  have hlA : nodeLeaves dec.nodes (idOf ia) = lvOf ia := by
    unfold nodeLeaves; rw [hI.nd ia ha]; rfl
  have hlB : nodeLeaves dec.nodes (idOf ib) = lvOf ib := by
    unfold nodeLeaves; rw [hI.nd ib hb]; rfl
  have hupl : ∀ x < st.clusters.length - 1, up ib x < st.clusters.length := fun x hx => up_lt _ ib x hb hx
  -- the decoded state after the row
  have hdec : decStep dec (traceId st.tracer (Cl st ia), traceId st.tracer (Cl st ib), sA, sB) =
      { nodes := dec.nodes ++ [(dec.next, (lvOf ia).map (fun p => (p.1, p.2 + sA)) ++ (lvOf ib).map (fun p => (p.1, p.2 + sB)))],
        dists := dec.dists ++ ((lvOf ia).map (fun p => (p.1, p.2 + sA))).flatMap fun p =>
          ((lvOf ib).map (fun p => (p.1, p.2 + sB))).map fun q => ((p.1, q.1), p.2 + q.2),
        next := dec.next + 1 } := by
    unfold decStep
    simp only [hidA, hidB, hlA, hlB, q_add]
  rw [hdec]
  -- the joined key is not in the old tracer
  have hnew : st.tracer.find? (fun p => p.1 == (Cl st ia ++ Cl st ib)) = none := by
    rw [List.find?_eq_none]
    intro p hp hpe
    have hpe' : p.1 = Cl st ia ++ Cl st ib := by simpa using hpe
    obtain ⟨_, x, hx, hsub⟩ := hI.keys p hp
    obtain ⟨m1, hm1⟩ := List.exists_mem_of_ne_nil _ (hI.ne ia ha)
    obtain ⟨m2, hm2⟩ := List.exists_mem_of_ne_nil _ (hI.ne ib hb)
    have h1 : m1 ∈ Cl st x := hsub m1 (by rw [hpe']; simp [hm1])
    have h2 : m2 ∈ Cl st x := hsub m2 (by rw [hpe']; simp [hm2])
    have e1 : ia = x := by
      by_contra hne; exact hI.disj ia ha x hx hne m1 hm1 h1
    have e2 : ib = x := by
      by_contra hne; exact hI.disj ib hb x hx hne m2 hm2 h2
    omega
  constructor
  · rw [hk']; omega
  · rw [hk']; exact hsys
  · rw [hk']; exact hrep
  · -- tracer
    intro x hx
    rw [hk'] at hx
    rw [hC' x hx, htr, List.find?_append]
    by_cases hxa : up ib x = ia
    · simp only [hxa, if_true, hnew, Option.none_or]
      simp [hI.nxt]
    · simp only [hxa, if_false]
      rw [hI.tr _ (hupl x hx)]
      rfl
  · -- nodes
    intro x hx
    rw [hk'] at hx
    simp only
    rw [List.find?_append]
    by_cases hxa : up ib x = ia
    · simp only [hxa, if_true]
      have : dec.nodes.find? (fun p => p.1 == dec.next) = none := by
        rw [List.find?_eq_none]
        intro p hp hpe
        have := hI.fresh p hp
        have : p.1 = dec.next := by simpa using hpe
        omega
      rw [this]
      simp
    · simp only [hxa, if_false]
      rw [hI.nd _ (hupl x hx)]
      rfl
  · -- leaves
    intro x hx
    rw [hk'] at hx
    rw [hC' x hx]
    by_cases hxa : up ib x = ia
    · simp only [hxa, if_true, List.map_append, List.map_map, Function.comp_def]
      rw [← hI.lv ia ha, ← hI.lv ib hb]
    · simp only [hxa, if_false]
      exact hI.lv _ (hupl x hx)
  · -- cross distances
    intro x hx y hy hxy p hp q hq
    rw [hk'] at hx hy
    have hne : up ib x ≠ up ib y := fun e => hxy (up_inj ib x y e)
    by_cases hxa : up ib x = ia
    · have hya : up ib y ≠ ia := fun e => hne (hxa.trans e.symm)
      simp only [hxa, if_true] at hp
      simp only [hya, if_false] at hq
      obtain ⟨e1, e2⟩ := H2 x hx y hy hxy hxa
      rcases List.mem_append.mp hp with hp | hp
      · obtain ⟨p0, hp0, rfl⟩ := List.mem_map.mp hp
        have := hI.cross ia ha (up ib y) (hupl y hy) (fun e => hya e.symm) p0 hp0 q hq
        simp only
        rw [this, ← e1]; ring
      · obtain ⟨p0, hp0, rfl⟩ := List.mem_map.mp hp
        have := hI.cross ib hb (up ib y) (hupl y hy) (fun e => up_ne ib y e.symm) p0 hp0 q hq
        simp only
        rw [this, ← e2]; ring
    · by_cases hya : up ib y = ia
      · simp only [hxa, if_false] at hp
        simp only [hya, if_true] at hq
        obtain ⟨e1, e2⟩ := H2 y hy x hx (fun e => hxy e.symm) hya
        rw [dist_comm L' x y]
        rcases List.mem_append.mp hq with hq | hq
        · obtain ⟨q0, hq0, rfl⟩ := List.mem_map.mp hq
          have := hI.cross (up ib x) (hupl x hx) ia ha hxa p hp q0 hq0
          simp only
          rw [this, dist_comm L (up ib x) ia, ← e1]; ring
        · obtain ⟨q0, hq0, rfl⟩ := List.mem_map.mp hq
          have := hI.cross (up ib x) (hupl x hx) ib hb (up_ne ib x) p hp q0 hq0
          simp only
          rw [this, dist_comm L (up ib x) ib, ← e2]; ring
      · simp only [hxa, if_false] at hp
        simp only [hya, if_false] at hq
        rw [H1 x hx y hy hxy hxa hya]
        exact hI.cross _ (hupl x hx) _ (hupl y hy) hne p hp q hq
  · -- recorded path lengths
    intro e he
    simp only at he
    rcases List.mem_append.mp he with he | he
    · exact hI.recd e he
    · simp only [List.mem_flatMap, List.mem_map] at he
      obtain ⟨p, ⟨p0, hp0, rfl⟩, q, ⟨q0, hq0, rfl⟩, rfl⟩ := he
      have := hI.cross ia ha ib hb (by omega) p0 hp0 q0 hq0
      simp only
      rw [this, ← H3]; ring
  · -- coverage
    intro x hx i hi j hj hij
    rw [hk'] at hx
    rw [hC' x hx] at hi hj
    simp only
    by_cases hxa : up ib x = ia
    · simp only [hxa, if_true] at hi hj
      have hnewmem : ∀ u ∈ Cl st ia, ∀ v ∈ Cl st ib, ∃ w, ((u, v), w) ∈
          ((lvOf ia).map (fun p => (p.1, p.2 + sA))).flatMap fun p =>
            ((lvOf ib).map (fun p => (p.1, p.2 + sB))).map fun q => ((p.1, q.1), p.2 + q.2) := by
        intro u hu v hv
        obtain ⟨h1, hh1⟩ := (mem_lv _ _ (hI.lv ia ha) u).mp hu
        obtain ⟨h2, hh2⟩ := (mem_lv _ _ (hI.lv ib hb) v).mp hv
        refine ⟨(h1 + sA) + (h2 + sB), ?_⟩
        simp only [List.mem_flatMap, List.mem_map]
        exact ⟨(u, h1 + sA), ⟨(u, h1), hh1, rfl⟩, (v, h2 + sB), ⟨(v, h2), hh2, rfl⟩, rfl⟩
      rcases List.mem_append.mp hi with hi | hi <;> rcases List.mem_append.mp hj with hj | hj
      · obtain ⟨v, hv⟩ := hI.cov ia ha i hi j hj hij
        exact ⟨v, by rcases hv with hv | hv <;> simp [hv]⟩
      · obtain ⟨w, hw⟩ := hnewmem i hi j hj
        exact ⟨w, Or.inl (List.mem_append_right _ hw)⟩
      · obtain ⟨w, hw⟩ := hnewmem j hj i hi
        exact ⟨w, Or.inr (List.mem_append_right _ hw)⟩
      · obtain ⟨v, hv⟩ := hI.cov ib hb i hi j hj hij
        exact ⟨v, by rcases hv with hv | hv <;> simp [hv]⟩
    · simp only [hxa, if_false] at hi hj
      obtain ⟨v, hv⟩ := hI.cov _ (hupl x hx) i hi j hj hij
      exact ⟨v, by rcases hv with hv | hv <;> simp [hv]⟩
  · -- fresh ids
    intro p hp
    simp only at hp ⊢
    rcases List.mem_append.mp hp with hp | hp
    · have := hI.fresh p hp; omega
    · simp only [List.mem_singleton] at hp; subst hp; simp
  · -- next id
    simp only
    rw [htr, List.map_append, List.map_cons, List.map_nil, foldl_max_append, ← hI.nxt]
    omega
  · -- tracer keys
    intro p hp
    rw [htr] at hp
    rw [hk']
    have hia' : ∃ x', x' < st.clusters.length - 1 ∧ up ib x' = ia := ⟨ia, by omega, by simp [up, hab]⟩
    rcases List.mem_append.mp hp with hp | hp
    · obtain ⟨h1, x, hx, hsub⟩ := hI.keys p hp
      refine ⟨h1, ?_⟩
      by_cases hxb : x = ib
      · obtain ⟨x', hx', hux⟩ := hia'
        refine ⟨x', hx', fun m hm => ?_⟩
        rw [hC' x' hx']
        simp only [hux, if_true]
        exact List.mem_append_right _ (hxb ▸ hsub m hm)
      · obtain ⟨x', hx', hux⟩ := up_surj _ ib x hb hx hxb
        refine ⟨x', hx', fun m hm => ?_⟩
        rw [hC' x' hx']
        by_cases hxa : up ib x' = ia
        · simp only [hxa, if_true]
          exact List.mem_append_left _ (by rw [← hxa, hux]; exact hsub m hm)
        · simp only [hxa, if_false]
          rw [hux]; exact hsub m hm
    · simp only [List.mem_singleton] at hp
      subst hp
      simp only
      refine ⟨by simp [hI.ne ia ha], ?_⟩
      obtain ⟨x', hx', hux⟩ := hia'
      refine ⟨x', hx', fun m hm => ?_⟩
      rw [hC' x' hx']
      simp only [hux, if_true]
      exact hm
  · -- non-empty
    intro x hx
    rw [hk'] at hx
    rw [hC' x hx]
    by_cases hxa : up ib x = ia
    · simp [hxa, hI.ne ia ha]
    · simp only [hxa, if_false]; exact hI.ne _ (hupl x hx)
  · -- disjoint
    intro x hx y hy hxy m hm hm'
    rw [hk'] at hx hy
    rw [hC' x hx] at hm
    rw [hC' y hy] at hm'
    have hne : up ib x ≠ up ib y := fun e => hxy (up_inj ib x y e)
    by_cases hxa : up ib x = ia
    · have hya : up ib y ≠ ia := fun e => hne (hxa.trans e.symm)
      simp only [hxa, if_true] at hm
      simp only [hya, if_false] at hm'
      rcases List.mem_append.mp hm with hm | hm
      · exact hI.disj ia ha _ (hupl y hy) (fun e => hya e.symm) m hm hm'
      · exact hI.disj ib hb _ (hupl y hy) (fun e => up_ne ib y e.symm) m hm hm'
    · simp only [hxa, if_false] at hm
      by_cases hya : up ib y = ia
      · simp only [hya, if_true] at hm'
        rcases List.mem_append.mp hm' with hm' | hm'
        · exact hI.disj _ (hupl x hx) ia ha hxa m hm hm'
        · exact hI.disj _ (hupl x hx) ib hb (up_ne ib x) m hm hm'
      · simp only [hya, if_false] at hm'
        exact hI.disj _ (hupl x hx) _ (hupl y hy) hne m hm hm'

/-! ### the two kinds of join of the model -/

theorem njStep_two (st : NState ℚ) (h2 : st.clusters.length = 2) :
    njStep st = some
      { clusters := [Cl st 0 ++ Cl st 1], matrix := [[0]],
        tracer := st.tracer ++ [(Cl st 0 ++ Cl st 1, (st.tracer.map (·.2)).foldl max 0 + 1)],
        rows := st.rows ++ [(traceId st.tracer (Cl st 0), traceId st.tracer (Cl st 1),
          mget st.matrix 0 1 / 2, mget st.matrix 0 1 / 2)] } := by
  unfold njStep
  simp [h2, Cl]

theorem step_inv (d0 : Nat → Nat → ℚ) (st st' : NState ℚ) (dec : Dec ℚ) (L : List (Split × ℚ))
    (idOf : Nat → Nat) (lvOf : Nat → List (Nat × ℚ)) (hI : InvW d0 st dec L idOf lvOf)
    (hk : 2 ≤ st.clusters.length) (h : njStep st = some st') :
    ∃ r L' idOf' lvOf', st'.rows = st.rows ++ [r] ∧ InvW d0 st' (decStep dec r) L' idOf' lvOf' := by
  by_cases h2 : st.clusters.length = 2
  · rw [njStep_two st h2] at h
    have hst := Option.some.inj h
    have hcl : st'.clusters = [Cl st 0 ++ Cl st 1] := by rw [← hst]
    have hm : st'.matrix = [[0]] := by rw [← hst]
    have htr : st'.tracer = st.tracer ++ [(Cl st 0 ++ Cl st 1, (st.tracer.map (·.2)).foldl max 0 + 1)] := by rw [← hst]
    have hrows : st'.rows = st.rows ++ [(traceId st.tracer (Cl st 0), traceId st.tracer (Cl st 1),
          mget st.matrix 0 1 / 2, mget st.matrix 0 1 / 2)] := by rw [← hst]
    have hsys0 : System (st.clusters.length - 1) [] := by
      constructor <;> intro p hp <;> simp at hp
    have hrep0 : Rep (st.clusters.length - 1) st'.matrix (dist []) := by
      rw [h2, hm]
      refine ⟨by simp, ?_, ?_⟩
      · intro i hi
        have : i = 0 := by omega
        subst this; simp
      · intro i hi j hj
        have : i = 0 := by omega
        have : j = 0 := by omega
        subst_vars
        simp [mget, dist]
    have key := join_inv d0 st st' dec L [] idOf lvOf hI 0 1 (by omega) (by omega)
      (mget st.matrix 0 1 / 2) (mget st.matrix 0 1 / 2) hsys0 hrep0
      (by rw [hcl]; simp [h2, up, List.range_succ])
      htr
      (by intro x hx y hy hxy; omega)
      (by intro x hx y hy hxy; omega)
      (by rw [hI.rep.val 0 (by omega) 1 (by omega)]; ring)
    exact ⟨_, _, _, _, hrows, key⟩
  · have hk3 : 3 ≤ st.clusters.length := by omega
    obtain ⟨ia, ib, sA, sB, hab, hb, hch, hsys', hrep', hcl, htr, hrows, H3, Hex⟩ :=
      njStep_additive st st' L hk3 hI.sys hI.rep h
    have key := join_inv d0 st st' dec L (reduce L ia ib) idOf lvOf hI ia ib hab hb sA sB hsys' hrep' hcl htr
      (by
        intro x hx y hy hxy hxa hya
        exact reduce_other _ L ia ib hch x y (up_lt _ ib x hb hx) (up_lt _ ib y hb hy) hxa hya)
      (by
        intro x hx y hy hxy hxa
        rw [reduce_dist_joined L ia ib x y hxa]
        have hne : up ib y ≠ ia := fun e => hxy (up_inj ib x y (hxa.trans e.symm))
        exact Hex (up ib y) (up_lt _ ib y hb hy) hne (up_ne ib y))
      H3
    exact ⟨_, _, _, _, hrows, key⟩

/-! ### the run -/

theorem run_inv (n : Nat) (d0 : Nat → Nat → ℚ) (fuel : Nat) (st : NState ℚ) (L : List (Split × ℚ))
    (idOf : Nat → Nat) (lvOf : Nat → List (Nat × ℚ)) (hI : InvW d0 st (decode n st.rows) L idOf lvOf) :
    ∃ L' idOf' lvOf', InvW d0 (njRun fuel st) (decode n (njRun fuel st).rows) L' idOf' lvOf' := by
  induction fuel generalizing st L idOf lvOf with
  | zero => exact ⟨L, idOf, lvOf, hI⟩
  | succ f ih =>
    simp only [njRun]
    by_cases h2 : 2 ≤ st.clusters.length
    · obtain ⟨st', hs⟩ := njStep_some st h2
      rw [hs]
      simp only
      obtain ⟨r, L', idOf', lvOf', hrows, hI'⟩ := step_inv d0 st st' _ L idOf lvOf hI h2 hs
      have hd : decode n st'.rows = decStep (decode n st.rows) r := by
        rw [hrows]; simp [decode, List.foldl_append]
      rw [← hd] at hI'
      exact ih st' L' idOf' lvOf' hI'
    · have h1 : st.clusters.length ≤ 1 := by omega
      have hn : njStep st = none := by simp [njStep, h1]
      rw [hn]
      exact ⟨L, idOf, lvOf, hI⟩

theorem find_map_range {α : Type} (n : Nat) (f : Nat → α) (pred : α → Bool) (x : Nat) (hx : x < n)
    (hp : pred (f x) = true) (hlt : ∀ y < x, pred (f y) = false) :
    ((List.range n).map f).find? pred = some (f x) := by
  have hsplit : List.range n = List.range x ++ (x :: List.range' (x + 1) (n - (x + 1))) := by
    rw [List.range_eq_range', List.range_eq_range']
    have h1 : n = x + (n - x) := by omega
    conv => lhs; rw [h1, ← List.range'_append_1]
    congr 1
    have h2 : n - x = (n - (x + 1)) + 1 := by omega
    rw [h2, List.range'_succ]
    simp
  rw [hsplit, List.map_append, List.find?_append]
  have : ((List.range x).map f).find? pred = none := by
    rw [List.find?_eq_none]
    intro a ha
    simp only [List.mem_map, List.mem_range] at ha
    obtain ⟨y, hy, rfl⟩ := ha
    simp [hlt y hy]
  rw [this]
  simp [hp]

theorem foldl_max_range_succ (n : Nat) : (List.range (n + 1)).foldl max 0 = n := by
  induction n with
  | zero => simp
  | succ n ih => rw [List.range_succ, List.foldl_append, ih]; simp

theorem init_inv (n : Nat) (hn : 1 ≤ n) (M : List (List ℚ)) (L : List (Split × ℚ)) (hS : System n L)
    (hR : Rep n M (dist L)) :
    InvW (dist L) ⟨(List.range n).map fun i => [i], M, (List.range n).map fun i => ([i], i), []⟩
      (decode n []) L (fun x => x) (fun x => [(x, 0)]) := by
  have hC : ∀ x < n, Cl (⟨(List.range n).map fun i => [i], M, (List.range n).map fun i => ([i], i), []⟩ : NState ℚ) x = [x] := by
    intro x hx
    show ((List.range n).map fun i => [i]).getD x [] = [x]
    rw [getD_map_range _ _ x _ hx]
  have hlen : (⟨(List.range n).map fun i => [i], M, (List.range n).map fun i => ([i], i), []⟩ : NState ℚ).clusters.length = n := by
    simp
  constructor
  · rw [hlen]; exact hn
  · rw [hlen]; exact hS
  · rw [hlen]; exact hR
  · intro x hx
    rw [hlen] at hx
    rw [hC x hx]
    exact find_map_range n (fun i => ([i], i)) _ x hx (by simp) (by intro y hy; simp; omega)
  · intro x hx
    rw [hlen] at hx
    simp only [decode, List.foldl_nil, decInit]
    exact find_map_range n (fun i => (i, [(i, (0 : ℚ))])) _ x hx (by simp) (by intro y hy; simp; omega)
  · intro x hx
    rw [hlen] at hx
    rw [hC x hx]; rfl
  · intro x hx y hy hxy p hp q hq
    simp only [List.mem_singleton] at hp hq
    subst hp; subst hq
    simp
  · intro e he
    simp [decode, decInit] at he
  · intro x hx i hi j hj hij
    rw [hlen] at hx
    rw [hC x hx] at hi hj
    simp only [List.mem_singleton] at hi hj
    omega
  · intro p hp
    simp only [decode, List.foldl_nil, decInit, List.mem_map, List.mem_range] at hp ⊢
    obtain ⟨i, hi, rfl⟩ := hp
    exact hi
  · simp only [decode, List.foldl_nil, decInit, List.map_map, Function.comp_def, List.map_id']
    obtain ⟨m, rfl⟩ : ∃ m, n = m + 1 := ⟨n - 1, by omega⟩
    rw [foldl_max_range_succ]
  · intro p hp
    simp only [List.mem_map, List.mem_range] at hp
    obtain ⟨i, hi, rfl⟩ := hp
    rw [hlen]
    refine ⟨by simp, i, hi, ?_⟩
    intro m hm
    rw [hC i hi]
    exact hm
  · intro x hx
    rw [hlen] at hx
    rw [hC x hx]; simp
  · intro x hx y hy hxy m hm hm'
    rw [hlen] at hx hy
    rw [hC x hx] at hm
    rw [hC y hy] at hm'
    simp only [List.mem_singleton] at hm hm'
    omega

/-- **C09, Neighbor-Joining on a tree metric (exact arithmetic)**: in the tree `_neighbor` returns, the path between any
two taxa is as long as their input distance -/
theorem C09_nj_path_sums (n : Nat) (hn : 1 ≤ n) (M : List (List ℚ)) (L : List (Split × ℚ)) (hS : System n L)
    (hR : Rep n M (dist L)) :
    (∀ e ∈ (decode n (neighbor M n).rows).dists, e.2 = dist L e.1.1 e.1.2) ∧
    (∀ i < n, ∀ j < n, i ≠ j → ∃ v, (((i, j), v) ∈ (decode n (neighbor M n).rows).dists ∨
      ((j, i), v) ∈ (decode n (neighbor M n).rows).dists) ∧ v = dist L i j) := by
  obtain ⟨L', idOf', lvOf', hI⟩ := run_inv n (dist L) n _ L _ _ (init_inv n hn M L hS hR)
  have hstruct := C09_nj_structure M n hn
  change InvW (dist L) (neighbor M n) (decode n (neighbor M n).rows) L' idOf' lvOf' at hI
  refine ⟨hI.recd, ?_⟩
  intro i hi j hj hij
  -- the single remaining cluster holds every taxon
  have hone : (neighbor M n).clusters = [Cl (neighbor M n) 0] := by
    have h1 := hstruct.2.1
    match hc : (neighbor M n).clusters, h1 with
    | [c], _ => simp [Cl, hc]
  have hmem : ∀ m < n, m ∈ Cl (neighbor M n) 0 := by
    intro m hm
    have hp := hstruct.1
    rw [hone] at hp
    simp only [List.flatten_cons, List.flatten_nil, List.append_nil] at hp
    exact hp.mem_iff.mpr (by simpa using hm)
  obtain ⟨v, hv⟩ := hI.cov 0 (by rw [hstruct.2.1]; omega) i (hmem i hi) j (hmem j hj) hij
  refine ⟨v, hv, ?_⟩
  rcases hv with hv | hv
  · exact hI.recd _ hv
  · have := hI.recd _ hv
    simp only at this
    rw [this, dist_comm]

/-! the hypotheses of `C09_nj_path_sums` are satisfiable -/

/-- quartet ((0,1),(2,3)): pendant edges 1, 2, 3, 4 and the inner edge 5 -/
def njExL : List (Split × ℚ) :=
  [(fun m => m == 0, 1), (fun m => m == 1, 2), (fun m => m == 2, 3), (fun m => m == 3, 4), (fun m => m == 0 || m == 1, 5)]

def njExM : List (List ℚ) := [[0, 3, 9, 10], [3, 0, 10, 11], [9, 10, 0, 7], [10, 11, 7, 0]]

example : System 4 njExL ∧ Rep 4 njExM (dist njExL) := by
  refine ⟨⟨?_, ?_⟩, ⟨rfl, ?_, ?_⟩⟩
  · intro p hp
    simp only [njExL, List.mem_cons, List.mem_nil_iff, or_false] at hp
    rcases hp with rfl | rfl | rfl | rfl | rfl <;> norm_num
  · intro p hp q hq
    simp only [njExL, List.mem_cons, List.mem_nil_iff, or_false] at hp hq
    rcases hp with rfl | rfl | rfl | rfl | rfl <;> rcases hq with rfl | rfl | rfl | rfl | rfl <;>
      first
        | exact ⟨true, true, by decide⟩
        | exact ⟨true, false, by decide⟩
        | exact ⟨false, true, by decide⟩
  · intro i hi
    have : i = 0 ∨ i = 1 ∨ i = 2 ∨ i = 3 := by omega
    rcases this with rfl | rfl | rfl | rfl <;> rfl
  · intro i hi j hj
    have hi' : i = 0 ∨ i = 1 ∨ i = 2 ∨ i = 3 := by omega
    have hj' : j = 0 ∨ j = 1 ∨ j = 2 ∨ j = 3 := by omega
    rcases hi' with rfl | rfl | rfl | rfl <;> rcases hj' with rfl | rfl | rfl | rfl <;>
      simp [mget, njExM, dist, njExL, sep] <;> norm_num


end Verif.TreeBuild
