/-
# C06 — the consonant-class method closed: its distance IS an equivalence at every threshold in [0, 1), so single and
complete linkage return exactly the classes of equal keys (no hypothesis left about the matrix)
-/
import Verif.Model.Turchin
import Verif.Props.C06Cor
import Verif.Props.C06Avg
namespace Verif.Turchin
open Verif.Cluster Verif.Align

variable (isVowel : Nat → Bool) (h : Nat)

theorem dist_le_iff (a b : List Nat) (t : Int) (h0 : 0 ≤ t) (h1 : t < 1) :
    dist isVowel h a b ≤ t ↔ key isVowel h a = key isVowel h b := by
  unfold dist
  by_cases hk : key isVowel h a = key isVowel h b
  · simp [hk, h0]
  · have : (key isVowel h a != key isVowel h b) = true := by simpa using hk
    simp only [this, if_true, hk, iff_false]
    omega

theorem dist_self (a : List Nat) : dist isVowel h a a = 0 := by simp [dist]

theorem dist_symm (a b : List Nat) : dist isVowel h a b = dist isVowel h b a := by
  unfold dist
  by_cases hk : key isVowel h a = key isVowel h b
  · simp [hk]
  · have h1 : (key isVowel h a != key isVowel h b) = true := by simpa using hk
    have h2 : (key isVowel h b != key isVowel h a) = true := by simpa using fun e => hk e.symm
    simp [h1, h2]

theorem dist_range (a b : List Nat) : dist isVowel h a b = 0 ∨ dist isVowel h a b = 1 := by
  unfold dist; split <;> simp

/-- **C06, consonant-class method, single linkage**: for the words `w 0 … w (n-1)` of a concept and any threshold
`0 ≤ t < 1`, two different words share a cluster iff their keys are equal. -/
theorem C06_turchin_single (cfg : Cluster.Cfg) (hl : cfg.link = .single) (hu : cfg.unordered = false)
    (w : Nat → List Nat) (t : Int) (h0 : 0 ≤ t) (h1 : t < 1) (n : Nat) :
    let M := fun x y => dist isVowel h (w x) (w y)
    (∀ c ∈ flatCluster cfg M t n, ∀ x ∈ c.2, ∀ y ∈ c.2, key isVowel h (w x) = key isVowel h (w y)) ∧
    (∀ p q (hp : p < (flatCluster cfg M t n).length) (hq : q < (flatCluster cfg M t n).length), p ≠ q →
      ∀ x ∈ (flatCluster cfg M t n)[p].2, ∀ y ∈ (flatCluster cfg M t n)[q].2,
        key isVowel h (w x) ≠ key isVowel h (w y)) := by
  intro M
  have hsymm : ∀ x y, M x y ≤ t → M y x ≤ t := by
    intro x y hxy
    show dist isVowel h (w y) (w x) ≤ t
    rw [dist_symm]; exact hxy
  have htrans : ∀ x y z, M x y ≤ t → M y z ≤ t → M x z ≤ t := by
    intro x y z hxy hyz
    have e1 := (dist_le_iff isVowel h (w x) (w y) t h0 h1).mp hxy
    have e2 := (dist_le_iff isVowel h (w y) (w z) t h0 h1).mp hyz
    exact (dist_le_iff isVowel h (w x) (w z) t h0 h1).mpr (e1.trans e2)
  obtain ⟨a1, a2⟩ := C06_classes_single cfg hl hu M t n hsymm htrans
  constructor
  · intro c hc x hx y hy
    by_cases hxy : x = y
    · rw [hxy]
    · exact (dist_le_iff isVowel h (w x) (w y) t h0 h1).mp (a1 c hc x hx y hy hxy)
  · intro p q hp hq hne x hx y hy hk
    exact a2 p q hp hq hne x hx y hy ((dist_le_iff isVowel h (w x) (w y) t h0 h1).mpr hk)

/-- **C06, consonant-class method, complete linkage**: the same classes -/
theorem C06_turchin_complete (cfg : Cluster.Cfg) (hl : cfg.link = .complete) (hu : cfg.unordered = false)
    (w : Nat → List Nat) (t : Int) (h0 : 0 ≤ t) (h1 : t < 1) (n : Nat) :
    let M := fun x y => dist isVowel h (w x) (w y)
    (∀ c ∈ flatCluster cfg M t n, ∀ x ∈ c.2, ∀ y ∈ c.2, key isVowel h (w x) = key isVowel h (w y)) ∧
    (∀ p q (hp : p < (flatCluster cfg M t n).length) (hq : q < (flatCluster cfg M t n).length), p ≠ q →
      ∀ x ∈ (flatCluster cfg M t n)[p].2, ∀ y ∈ (flatCluster cfg M t n)[q].2,
        key isVowel h (w x) ≠ key isVowel h (w y)) := by
  intro M
  have hsym : ∀ i j, M i j = M j i := fun i j => dist_symm isVowel h (w i) (w j)
  have hrefl : ∀ x, M x x ≤ t := fun x => by
    show dist isVowel h (w x) (w x) ≤ t
    rw [dist_self]; exact h0
  have htrans : ∀ x y z, M x y ≤ t → M y z ≤ t → M x z ≤ t := by
    intro x y z hxy hyz
    have e1 := (dist_le_iff isVowel h (w x) (w y) t h0 h1).mp hxy
    have e2 := (dist_le_iff isVowel h (w y) (w z) t h0 h1).mp hyz
    exact (dist_le_iff isVowel h (w x) (w z) t h0 h1).mpr (e1.trans e2)
  obtain ⟨a1, a2⟩ := C06_classes_complete cfg hl hu M hsym t n hrefl htrans
  constructor
  · intro c hc x hx y hy
    by_cases hxy : x = y
    · rw [hxy]
    · exact (dist_le_iff isVowel h (w x) (w y) t h0 h1).mp (a1 c hc x hx y hy hxy)
  · intro p q hp hq hne x hx y hy hk
    exact a2 p q hp hq hne x hx y hy ((dist_le_iff isVowel h (w x) (w y) t h0 h1).mpr hk)

/-- **C06, consonant-class method, average linkage** (the default of `LexStat.cluster`): the same classes; the two laws of the
mean at the threshold are those proved for the integers (`meanLe_int`, `meanGt_int`) – exact on a 0/1 matrix -/
theorem C06_turchin_average (cfg : Cluster.Cfg) (hl : cfg.link = .average) (hu : cfg.unordered = false)
    (w : Nat → List Nat) (t : Int) (h0 : 0 ≤ t) (h1 : t < 1) (n : Nat) :
    let M := fun x y => dist isVowel h (w x) (w y)
    (∀ c ∈ flatCluster cfg M t n, ∀ x ∈ c.2, ∀ y ∈ c.2, key isVowel h (w x) = key isVowel h (w y)) ∧
    (∀ p q (hp : p < (flatCluster cfg M t n).length) (hq : q < (flatCluster cfg M t n).length), p ≠ q →
      ∀ x ∈ (flatCluster cfg M t n)[p].2, ∀ y ∈ (flatCluster cfg M t n)[q].2,
        key isVowel h (w x) ≠ key isVowel h (w y)) := by
  intro M
  have hrefl : ∀ x, M x x ≤ t := fun x => by
    show dist isVowel h (w x) (w x) ≤ t
    rw [dist_self]; exact h0
  have hsymm : ∀ x y, M x y ≤ t → M y x ≤ t := by
    intro x y hxy
    show dist isVowel h (w y) (w x) ≤ t
    rw [dist_symm]; exact hxy
  have htrans : ∀ x y z, M x y ≤ t → M y z ≤ t → M x z ≤ t := by
    intro x y z hxy hyz
    have e1 := (dist_le_iff isVowel h (w x) (w y) t h0 h1).mp hxy
    have e2 := (dist_le_iff isVowel h (w y) (w z) t h0 h1).mp hyz
    exact (dist_le_iff isVowel h (w x) (w z) t h0 h1).mpr (e1.trans e2)
  obtain ⟨a1, a2⟩ := C06_classes_average cfg hl hu M t n hrefl hsymm htrans (meanLe_int t) (meanGt_int t)
  constructor
  · intro c hc x hx y hy
    exact (dist_le_iff isVowel h (w x) (w y) t h0 h1).mp (a1 c hc x hx y hy)
  · intro p q hp hq hne x hx y hy hk
    exact a2 p q hp hq hne x hx y hy ((dist_le_iff isVowel h (w x) (w y) t h0 h1).mpr hk)

/-- an initial vowel counts as `H` (code 8 here), later vowels are skipped, two classes make the key -/
example : key (· == 5) 8 [5, 1, 5, 2, 3] = [8, 1] ∧ key (· == 5) 8 [1, 5, 2] = [1, 2] ∧
    dist (· == 5) 8 [1, 5, 2, 9] [1, 2, 7] = 0 ∧ dist (· == 5) 8 [5, 1] [1, 5] = 1 := by decide

end Verif.Turchin
