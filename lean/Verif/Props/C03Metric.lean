import Verif.Props.C03Edit
set_option linter.unusedSimpArgs false
set_option linter.unusedVariables false
/-!
# C03 — the edit distance is symmetric and separates different sequences

From the characterisation `C03_edit_eq_lev` (minimum cost over all edit scripts):
transposing a script (insertions ↔ deletions) gives a script of the same cost for the swapped pair, so
`edit_dist(a, b) = edit_dist(b, a)`; and a script of cost 0 consists of matches only, so
`edit_dist(a, b) = 0` exactly when `a = b`.  The triangle inequality follows by induction from the first-move decomposition of optimal scripts.
-/
namespace Verif.Align
variable {α : Type} [DecidableEq α]

def swapMv : Mv → Mv
  | .up => .left
  | .left => .up
  | .diag => .diag

theorem isPath_swap (i j : Nat) (ms : List Mv) (h : IsPath i j ms) : IsPath j i (ms.map swapMv) := by
  unfold IsPath at *
  have key : ∀ (l : List Mv), ((l.map swapMv).filter (· ≠ .left)).length = (l.filter (· ≠ .up)).length ∧
      ((l.map swapMv).filter (· ≠ .up)).length = (l.filter (· ≠ .left)).length := by
    intro l
    induction l with
    | nil => simp
    | cons m ms ih =>
      simp only [ne_eq, decide_not] at ih
      cases m <;> simp [swapMv, List.filter_cons, ih.1, ih.2]
  rw [(key ms).1, (key ms).2]
  exact ⟨h.2, h.1⟩

theorem editCost_swap (a b : List α) : ∀ (ms : List Mv) (i j : Nat),
    editCost b a (ms.map swapMv) j i = editCost a b ms i j
  | [], _, _ => rfl
  | .up :: ms, i, j => by simp [editCost, swapMv, editCost_swap a b ms (i+1) j]
  | .left :: ms, i, j => by simp [editCost, swapMv, editCost_swap a b ms i (j+1)]
  | .diag :: ms, i, j => by
    simp only [List.map_cons, swapMv, editCost, editCost_swap a b ms (i+1) (j+1)]
    congr 1
    by_cases h : a[j]? = b[i]?
    · simp [h]
    · have : ¬ b[i]? = a[j]? := fun e => h e.symm
      simp [h, this]

theorem editDist_le_swap (a b : List α) : editDist a b ≤ editDist b a := by
  obtain ⟨_, ms, hp, hc⟩ := C03_edit_eq_lev b a
  have := (C03_edit_eq_lev a b).1 (ms.map swapMv) (isPath_swap _ _ ms hp)
  rw [editCost_swap b a ms 0 0] at this
  omega

/-- **C03: the edit distance is symmetric** -/
theorem C03_edit_symm (a b : List α) : editDist a b = editDist b a :=
  Nat.le_antisymm (editDist_le_swap a b) (editDist_le_swap b a)

/-- a script without cost matches the two suffixes position by position -/
theorem zero_cost_eq (a b : List α) : ∀ (ms : List Mv) (i j : Nat), editCost a b ms i j = 0 →
    IsPath (b.length - i) (a.length - j) ms → i ≤ b.length → j ≤ a.length → a.drop j = b.drop i
  | [], i, j, _, hp, hi, hj => by
    simp only [IsPath, List.filter_nil, List.length_nil] at hp
    have h1 : i = b.length := by omega
    have h2 : j = a.length := by omega
    subst h1; subst h2; simp
  | .up :: ms, i, j, hc, _, _, _ => by simp [editCost] at hc
  | .left :: ms, i, j, hc, _, _, _ => by simp [editCost] at hc
  | .diag :: ms, i, j, hc, hp, hi, hj => by
    simp only [editCost, Nat.add_eq_zero_iff] at hc
    obtain ⟨h1, h2⟩ := hc
    have heq : a[j]? = b[i]? := by
      by_cases h : a[j]? = b[i]?
      · exact h
      · simp [h] at h1
    simp only [IsPath, List.filter_cons] at hp
    have hp1 : ((ms.filter (· ≠ .left)).length + 1 = b.length - i) := by simpa using hp.1
    have hp2 : ((ms.filter (· ≠ .up)).length + 1 = a.length - j) := by simpa using hp.2
    have hi' : i < b.length := by omega
    have hj' : j < a.length := by omega
    have ih := zero_cost_eq a b ms (i+1) (j+1) h2 ⟨by omega, by omega⟩ (by omega) (by omega)
    rw [List.drop_eq_getElem_cons hj', List.drop_eq_getElem_cons hi', ih]
    congr 1
    rw [List.getElem?_eq_getElem hj', List.getElem?_eq_getElem hi'] at heq
    exact Option.some.inj heq

/-- **C03: distance 0 exactly for equal sequences** -/
theorem C03_edit_zero_iff (a b : List α) : editDist a b = 0 ↔ a = b := by
  constructor
  · intro h
    obtain ⟨_, ms, hp, hc⟩ := C03_edit_eq_lev a b
    have := zero_cost_eq a b ms 0 0 (by omega) (by simpa using hp) (by omega) (by omega)
    simpa using this
  · rintro rfl; exact C03_edit_self a

/-! ### the triangle inequality -/

/-- a script read from an inner position is a script of the two suffixes -/
theorem editCost_shift (a b : List α) (p q : Nat) : ∀ (ms : List Mv) (i j : Nat),
    editCost a b ms (i + p) (j + q) = editCost (a.drop q) (b.drop p) ms i j
  | [], _, _ => rfl
  | .up :: ms, i, j => by
    simp only [editCost]
    rw [show i + p + 1 = (i + 1) + p by omega, editCost_shift a b p q ms (i+1) j]
  | .left :: ms, i, j => by
    simp only [editCost]
    rw [show j + q + 1 = (j + 1) + q by omega, editCost_shift a b p q ms i (j+1)]
  | .diag :: ms, i, j => by
    simp only [editCost]
    rw [show i + p + 1 = (i + 1) + p by omega, show j + q + 1 = (j + 1) + q by omega,
      editCost_shift a b p q ms (i+1) (j+1)]
    simp only [List.getElem?_drop]
    rw [Nat.add_comm q j, Nat.add_comm p i]

theorem isPath_up (ms : List Mv) (i j : Nat) : IsPath i j (.up :: ms) ↔ ∃ i', i = i' + 1 ∧ IsPath i' j ms := by
  simp only [IsPath, List.filter_cons]
  constructor
  · intro h
    refine ⟨(ms.filter (· ≠ .left)).length, ?_, rfl, ?_⟩
    · simpa using h.1.symm
    · simpa using h.2
  · rintro ⟨i', rfl, h1, h2⟩
    constructor
    · simpa using h1
    · simpa using h2

theorem isPath_left (ms : List Mv) (i j : Nat) : IsPath i j (.left :: ms) ↔ ∃ j', j = j' + 1 ∧ IsPath i j' ms := by
  simp only [IsPath, List.filter_cons]
  constructor
  · intro h
    refine ⟨(ms.filter (· ≠ .up)).length, ?_, ?_, rfl⟩
    · simpa using h.2.symm
    · simpa using h.1
  · rintro ⟨j', rfl, h1, h2⟩
    constructor
    · simpa using h1
    · simpa using h2

theorem isPath_diag (ms : List Mv) (i j : Nat) :
    IsPath i j (.diag :: ms) ↔ ∃ i' j', i = i' + 1 ∧ j = j' + 1 ∧ IsPath i' j' ms := by
  simp only [IsPath, List.filter_cons]
  constructor
  · intro h
    refine ⟨(ms.filter (· ≠ .left)).length, (ms.filter (· ≠ .up)).length, ?_, ?_, rfl, rfl⟩
    · simpa using h.1.symm
    · simpa using h.2.symm
  · rintro ⟨i', j', rfl, rfl, h1, h2⟩
    constructor
    · simpa using h1
    · simpa using h2

/-- the three ways to extend an optimal script of a smaller pair -/
theorem editDist_cons_le (x y : α) (a b : List α) :
    editDist (x :: a) (y :: b) ≤ editDist a (y :: b) + 1 ∧
    editDist (x :: a) (y :: b) ≤ editDist (x :: a) b + 1 ∧
    editDist (x :: a) (y :: b) ≤ editDist a b + (if x = y then 0 else 1) := by
  refine ⟨?_, ?_, ?_⟩
  · obtain ⟨_, ms, hp, hc⟩ := C03_edit_eq_lev a (y :: b)
    have h := (C03_edit_eq_lev (x :: a) (y :: b)).1 (.left :: ms)
      ((isPath_left ms _ _).mpr ⟨a.length, by simp, by simpa using hp⟩)
    have := editCost_shift (x :: a) (y :: b) 0 1 ms 0 0
    simp only [Nat.add_zero, Nat.zero_add, List.drop_succ_cons, List.drop_zero] at this
    simp only [editCost, this, hc] at h
    omega
  · obtain ⟨_, ms, hp, hc⟩ := C03_edit_eq_lev (x :: a) b
    have h := (C03_edit_eq_lev (x :: a) (y :: b)).1 (.up :: ms)
      ((isPath_up ms _ _).mpr ⟨b.length, by simp, by simpa using hp⟩)
    have := editCost_shift (x :: a) (y :: b) 1 0 ms 0 0
    simp only [Nat.add_zero, Nat.zero_add, List.drop_succ_cons, List.drop_zero] at this
    simp only [editCost, this, hc] at h
    omega
  · obtain ⟨_, ms, hp, hc⟩ := C03_edit_eq_lev a b
    have h := (C03_edit_eq_lev (x :: a) (y :: b)).1 (.diag :: ms)
      ((isPath_diag ms _ _).mpr ⟨b.length, a.length, by simp, by simp, hp⟩)
    have := editCost_shift (x :: a) (y :: b) 1 1 ms 0 0
    simp only [Nat.add_zero, Nat.zero_add, List.drop_succ_cons, List.drop_zero] at this
    simp only [editCost, this, hc, List.getElem?_cons_zero, Option.some.injEq] at h
    omega

/-- … and an optimal script starts with one of them -/
theorem editDist_cons_ge (x y : α) (a b : List α) :
    editDist a (y :: b) + 1 ≤ editDist (x :: a) (y :: b) ∨
    editDist (x :: a) b + 1 ≤ editDist (x :: a) (y :: b) ∨
    editDist a b + (if x = y then 0 else 1) ≤ editDist (x :: a) (y :: b) := by
  obtain ⟨_, ms, hp, hc⟩ := C03_edit_eq_lev (x :: a) (y :: b)
  cases ms with
  | nil => simp [IsPath] at hp
  | cons m ms =>
    cases m with
    | up =>
      obtain ⟨i', hi', hp'⟩ := (isPath_up ms _ _).mp hp
      have hs := editCost_shift (x :: a) (y :: b) 1 0 ms 0 0
      simp only [Nat.add_zero, Nat.zero_add, List.drop_succ_cons, List.drop_zero] at hs
      have := (C03_edit_eq_lev (x :: a) b).1 ms (by
        simp only [List.length_cons] at hi' hp' ⊢
        have : i' = b.length := by omega
        subst this; exact hp')
      simp only [editCost, hs] at hc
      right; left; omega
    | left =>
      obtain ⟨j', hj', hp'⟩ := (isPath_left ms _ _).mp hp
      have hs := editCost_shift (x :: a) (y :: b) 0 1 ms 0 0
      simp only [Nat.add_zero, Nat.zero_add, List.drop_succ_cons, List.drop_zero] at hs
      have := (C03_edit_eq_lev a (y :: b)).1 ms (by
        simp only [List.length_cons] at hj' hp' ⊢
        have : j' = a.length := by omega
        subst this; exact hp')
      simp only [editCost, hs] at hc
      left; omega
    | diag =>
      obtain ⟨i', j', hi', hj', hp'⟩ := (isPath_diag ms _ _).mp hp
      have hs := editCost_shift (x :: a) (y :: b) 1 1 ms 0 0
      simp only [Nat.add_zero, Nat.zero_add, List.drop_succ_cons, List.drop_zero] at hs
      have := (C03_edit_eq_lev a b).1 ms (by
        simp only [List.length_cons] at hi' hj'
        have h1 : i' = b.length := by omega
        have h2 : j' = a.length := by omega
        subst h1; subst h2; exact hp')
      simp only [editCost, hs, List.getElem?_cons_zero, Option.some.injEq] at hc
      right; right; omega

theorem editDist_nil_left (b : List α) : editDist ([] : List α) b = b.length := by
  apply Nat.le_antisymm
  · have := C03_edit_le_max ([] : List α) b; simpa using this
  · obtain ⟨_, ms, hp, hc⟩ := C03_edit_eq_lev ([] : List α) b
    rw [← hc]
    -- a script of the pair ([], b) consists of |b| insertions
    have key : ∀ (ms : List Mv) (i : Nat), IsPath (b.length - i) 0 ms → i ≤ b.length →
        b.length - i ≤ editCost ([] : List α) b ms i 0 := by
      intro ms
      induction ms with
      | nil => intro i hp _; simp only [IsPath, List.filter_nil, List.length_nil] at hp; omega
      | cons m ms ih =>
        intro i hp hi
        cases m with
        | up =>
          obtain ⟨i', hi', hp'⟩ := (isPath_up ms _ _).mp hp
          have := ih (i+1) (by rw [show b.length - (i + 1) = i' by omega]; exact hp') (by omega)
          simp only [editCost]; omega
        | left => obtain ⟨j', hj', _⟩ := (isPath_left ms _ _).mp hp; omega
        | diag => obtain ⟨_, j', _, hj', _⟩ := (isPath_diag ms _ _).mp hp; omega
    have := key ms 0 (by simpa using hp) (by omega)
    simpa using this

theorem editDist_nil_right (a : List α) : editDist a ([] : List α) = a.length := by
  rw [C03_edit_symm, editDist_nil_left]

/-- **C03: the triangle inequality** – with symmetry and `d = 0 ↔ equal` the edit distance is a metric -/
theorem C03_edit_triangle : ∀ (n : Nat) (a b c : List α), a.length + b.length + c.length = n →
    editDist a c ≤ editDist a b + editDist b c := by
  intro n
  induction n using Nat.strongRecOn with
  | _ n ih =>
    intro a b c hn
    cases b with
    | nil =>
      rw [editDist_nil_right, editDist_nil_left]
      have := C03_edit_le_max a c
      omega
    | cons y b' =>
      cases a with
      | nil =>
        rw [editDist_nil_left, editDist_nil_left]
        cases c with
        | nil => simp
        | cons z c' =>
          simp only [List.length_cons] at hn ⊢
          rcases editDist_cons_ge y z b' c' with h | h | h
          · have := ih _ (by simp only [List.length_cons, List.length_nil] at hn ⊢; omega) ([] : List α) b' (z :: c') rfl
            rw [editDist_nil_left, editDist_nil_left] at this
            simp only [List.length_cons] at this; omega
          · have := ih _ (by simp only [List.length_cons, List.length_nil] at hn ⊢; omega) ([] : List α) (y :: b') c' rfl
            rw [editDist_nil_left, editDist_nil_left] at this
            simp only [List.length_cons] at this; omega
          · have := ih _ (by simp only [List.length_cons, List.length_nil] at hn ⊢; omega) ([] : List α) b' c' rfl
            rw [editDist_nil_left, editDist_nil_left] at this
            omega
      | cons x a' =>
        cases c with
        | nil =>
          rw [editDist_nil_right, editDist_nil_right]
          simp only [List.length_cons] at hn ⊢
          rcases editDist_cons_ge x y a' b' with h | h | h
          · have := ih _ (by simp only [List.length_cons, List.length_nil] at hn ⊢; omega) a' (y :: b') ([] : List α) rfl
            rw [editDist_nil_right, editDist_nil_right] at this
            simp only [List.length_cons] at this; omega
          · have := ih _ (by simp only [List.length_cons, List.length_nil] at hn ⊢; omega) (x :: a') b' ([] : List α) rfl
            rw [editDist_nil_right, editDist_nil_right] at this
            simp only [List.length_cons] at this; omega
          · have := ih _ (by simp only [List.length_cons, List.length_nil] at hn ⊢; omega) a' b' ([] : List α) rfl
            rw [editDist_nil_right, editDist_nil_right] at this
            omega
        | cons z c' =>
          simp only [List.length_cons] at hn
          obtain ⟨u1, u2, u3⟩ := editDist_cons_le x z a' c'
          rcases editDist_cons_ge x y a' b' with h | h | h
          · -- x deleted first
            have := ih _ (by simp only [List.length_cons]; omega) a' (y :: b') (z :: c') rfl
            omega
          · rcases editDist_cons_ge y z b' c' with g | g | g
            · have := ih _ (by simp only [List.length_cons]; omega) (x :: a') b' (z :: c') rfl
              omega
            · have := ih _ (by simp only [List.length_cons]; omega) (x :: a') (y :: b') c' rfl
              omega
            · have := ih _ (by simp only [List.length_cons]; omega) (x :: a') b' c' rfl
              omega
          · rcases editDist_cons_ge y z b' c' with g | g | g
            · have := ih _ (by simp only [List.length_cons]; omega) a' b' (z :: c') rfl
              omega
            · have := ih _ (by simp only [List.length_cons]; omega) (x :: a') (y :: b') c' rfl
              omega
            · have := ih _ (by omega) a' b' c' rfl
              have hxz : (if x = z then 0 else 1) ≤ (if x = y then 0 else 1) + (if y = z then 0 else 1) := by
                by_cases h1 : x = y <;> by_cases h2 : y = z <;> by_cases h3 : x = z <;> simp [h1, h2, h3]
              omega

end Verif.Align
