import Mathlib.Logic.Relation
import Verif.Lemmas.KernelMono
import Verif.Props.C05
set_option linter.unusedSectionVars false
set_option linter.unusedSimpArgs false
/-!
# C05 — order-dependent clauses

Over a totally ordered carrier (`ScoreLaws`, instance for `Int`; for finite IEEE doubles the
comparison laws are facts about `<`/`<=`): stop condition over **all** pairs, single linkage =
connected components of the `≤ t` graph, complete linkage diameter.
Proved for the ordered-pair scan of the source (`i != j`) and both pick rules.
-/
namespace Verif.Cluster
open Verif.Align ScoreOps ScoreLaws
variable {S : Type} [ScoreOps S] [LinearOrder S] [ScoreLaws S]

theorem foldMin_spec (xs : List S) (x : S) :
    (xs.foldl (fun acc y => if lt y acc then y else acc) x) ∈ x :: xs ∧
    ∀ v ∈ x :: xs, xs.foldl (fun acc y => if lt y acc then y else acc) x ≤ v := by
  induction xs generalizing x with
  | nil => simp
  | cons y ys ih =>
    simp only [List.foldl_cons]
    obtain ⟨h1, h2⟩ := ih (if lt y x = true then y else x)
    constructor
    · rcases List.mem_cons.mp h1 with h | h
      · rw [h]; split <;> simp
      · simp [h]
    · intro v hv
      have hle := h2 (if lt y x = true then y else x) List.mem_cons_self
      have hxy : (if lt y x = true then y else x) ≤ x ∧ (if lt y x = true then y else x) ≤ y := by
        split
        · rename_i h; rw [lt_iff] at h; exact ⟨le_of_lt h, le_refl _⟩
        · rename_i h; rw [lt_iff] at h; exact ⟨le_refl _, by order⟩
      rcases List.mem_cons.mp hv with rfl | hv
      · exact le_trans hle hxy.1
      · rcases List.mem_cons.mp hv with rfl | hv
        · exact le_trans hle hxy.2
        · exact h2 v (List.mem_cons_of_mem _ hv)

theorem listMin_spec (l : List S) (hl : l ≠ []) : listMin l ∈ l ∧ ∀ v ∈ l, listMin l ≤ v := by
  cases l with
  | nil => exact absurd rfl hl
  | cons x xs => exact foldMin_spec xs x

theorem foldMax_spec (xs : List S) (x : S) :
    (xs.foldl (fun acc y => if lt acc y then y else acc) x) ∈ x :: xs ∧
    ∀ v ∈ x :: xs, v ≤ xs.foldl (fun acc y => if lt acc y then y else acc) x := by
  induction xs generalizing x with
  | nil => simp
  | cons y ys ih =>
    simp only [List.foldl_cons]
    obtain ⟨h1, h2⟩ := ih (if lt x y = true then y else x)
    constructor
    · rcases List.mem_cons.mp h1 with h | h
      · rw [h]; split <;> simp
      · simp [h]
    · intro v hv
      have hle := h2 (if lt x y = true then y else x) List.mem_cons_self
      have hxy : x ≤ (if lt x y = true then y else x) ∧ y ≤ (if lt x y = true then y else x) := by
        split
        · rename_i h; rw [lt_iff] at h; exact ⟨le_of_lt h, le_refl _⟩
        · rename_i h; rw [lt_iff] at h; exact ⟨le_refl _, by order⟩
      rcases List.mem_cons.mp hv with rfl | hv
      · exact le_trans hxy.1 hle
      · rcases List.mem_cons.mp hv with rfl | hv
        · exact le_trans hxy.2 hle
        · exact h2 v (List.mem_cons_of_mem _ hv)

theorem listMax_spec (l : List S) (hl : l ≠ []) : listMax l ∈ l ∧ ∀ v ∈ l, v ≤ listMax l := by
  cases l with
  | nil => exact absurd rfl hl
  | cons x xs => exact foldMax_spec xs x

theorem argMin_le (lastMin : Bool) (l : List ((Nat × Nat) × S)) (x : (Nat × Nat) × S)
    (h : argMin lastMin l = some x) : ∀ y ∈ l, x.2 ≤ y.2 := by
  cases l with
  | nil => simp [argMin] at h
  | cons z zs =>
    simp only [argMin, Option.some.injEq] at h
    subst h
    have : ∀ (zs : List ((Nat × Nat) × S)) (acc : (Nat × Nat) × S),
        (zs.foldl (fun acc y => if (if lastMin then le y.2 acc.2 else lt y.2 acc.2) then y else acc) acc).2 ≤ acc.2 ∧
        ∀ y ∈ zs, (zs.foldl (fun acc y => if (if lastMin then le y.2 acc.2 else lt y.2 acc.2) then y else acc) acc).2 ≤ y.2 := by
      intro zs
      induction zs with
      | nil => intro acc; simp
      | cons w ws ih =>
        intro acc
        simp only [List.foldl_cons]
        obtain ⟨h1, h2⟩ := ih (if (if lastMin then le w.2 acc.2 else lt w.2 acc.2) = true then w else acc)
        have hacc : (if (if lastMin then le w.2 acc.2 else lt w.2 acc.2) = true then w else acc).2 ≤ acc.2 ∧
            (if (if lastMin then le w.2 acc.2 else lt w.2 acc.2) = true then w else acc).2 ≤ w.2 := by
          cases lastMin <;> simp only [Bool.false_eq_true, if_false, if_true] <;> split <;> rename_i hc
          · rw [lt_iff] at hc; exact ⟨le_of_lt hc, le_refl _⟩
          · rw [lt_iff] at hc; exact ⟨le_refl _, by order⟩
          · rw [le_iff] at hc; exact ⟨hc, le_refl _⟩
          · rw [le_iff] at hc; exact ⟨le_refl _, by order⟩
        refine ⟨le_trans h1 hacc.1, ?_⟩
        intro y hy
        rcases List.mem_cons.mp hy with rfl | hy
        · exact le_trans h1 hacc.2
        · exact h2 y hy
    intro y hy
    rcases List.mem_cons.mp hy with rfl | hy
    · exact (this zs y).1
    · exact (this zs z).2 y hy

omit [LinearOrder S] [ScoreLaws S] in
/-- with the ordered-pair scan every pair of distinct positions is scored -/
theorem pairScores_complete (cfg : Cfg) (hu : cfg.unordered = false) (M : Nat → Nat → S) (cs : St)
    (p q : Nat) (hp : p < cs.length) (hq : q < cs.length) (hne : p ≠ q) :
    ((p, q), linkage cfg.link M cs[p].2 cs[q].2) ∈ pairScores cfg M cs := by
  simp only [pairScores, List.mem_flatMap, List.mem_filterMap]
  refine ⟨(cs[p], p), ?_, (cs[q], q), ?_, ?_⟩
  · rw [List.mem_zipIdx_iff_getElem?]; simp [List.getElem?_eq_getElem hp]
  · rw [List.mem_zipIdx_iff_getElem?]; simp [List.getElem?_eq_getElem hq]
  · simp [hu, hne]

/-- **C05, stop condition**: in the returned state no two clusters have linkage `<= t`. -/
theorem C05_stop (cfg : Cfg) (hu : cfg.unordered = false) (M : Nat → Nat → S) (t : S) (n : Nat)
    (p q : Nat) (hp : p < (flatCluster cfg M t n).length) (hq : q < (flatCluster cfg M t n).length)
    (hne : p ≠ q) :
    t < linkage cfg.link M (flatCluster cfg M t n)[p].2 (flatCluster cfg M t n)[q].2 := by
  have hterm := C05_terminal cfg M t n
  generalize flatCluster cfg M t n = cs at *
  have hmem := pairScores_complete cfg hu M cs p q hp hq hne
  unfold Terminal at hterm
  cases hnx : next cfg M cs with
  | none =>
    -- impossible: at least two clusters and a non-empty scan
    unfold next at hnx
    have h2 : ¬ cs.length ≤ 1 := by omega
    simp only [h2, if_false] at hnx
    cases ha : argMin cfg.lastMin (pairScores cfg M cs) with
    | none =>
      cases hps : pairScores cfg M cs with
      | nil => rw [hps] at hmem; cases hmem
      | cons x xs => rw [hps] at ha; simp [argMin] at ha
    | some x => obtain ⟨⟨a, b⟩, m⟩ := x; simp [ha] at hnx
  | some x =>
    obtain ⟨m, cs'⟩ := x
    rw [hnx] at hterm
    simp only at hterm
    unfold next at hnx
    have h2 : ¬ cs.length ≤ 1 := by omega
    simp only [h2, if_false] at hnx
    cases ha : argMin cfg.lastMin (pairScores cfg M cs) with
    | none => simp [ha] at hnx
    | some x =>
      obtain ⟨⟨a, b⟩, m'⟩ := x
      simp only [ha, Option.some.injEq, Prod.mk.injEq] at hnx
      obtain ⟨rfl, _⟩ := hnx
      have := argMin_le _ _ _ ha _ hmem
      simp only at this
      have hlt : ¬ m' ≤ t := by rw [← le_iff]; simp [hterm]
      order


/-! ### invariants along the run -/

omit [LinearOrder S] [ScoreLaws S] in
theorem run_inv (P : St → Prop) (cfg : Cfg) (M : Nat → Nat → S) (t : S)
    (hstep : ∀ cs m cs', P cs → next cfg M cs = some (m, cs') → le m t = true → P cs') :
    ∀ n cs, P cs → P (run cfg M t n cs) := by
  intro n
  induction n with
  | zero => intro cs h; exact h
  | succ n ih =>
    intro cs h
    simp only [run]
    split
    · exact h
    · rename_i m cs' hn
      split
      · rename_i hm; exact ih cs' (hstep cs m cs' h hn hm)
      · exact h

omit [LinearOrder S] [ScoreLaws S] in
theorem mem_cross (M : Nat → Nat → S) (A B : List Nat) (v : S) :
    v ∈ cross M A B ↔ ∃ a ∈ A, ∃ b ∈ B, v = M a b := by
  simp only [cross, List.mem_flatMap, List.mem_map]
  constructor
  · rintro ⟨a, ha, b, hb, rfl⟩; exact ⟨a, ha, b, hb, rfl⟩
  · rintro ⟨a, ha, b, hb, rfl⟩; exact ⟨a, ha, b, hb, rfl⟩

omit [LinearOrder S] [ScoreLaws S] in
theorem cross_ne_nil (M : Nat → Nat → S) (A B : List Nat) (hA : A ≠ []) (hB : B ≠ []) : cross M A B ≠ [] := by
  obtain ⟨a, ha⟩ := List.exists_mem_of_ne_nil A hA
  obtain ⟨b, hb⟩ := List.exists_mem_of_ne_nil B hB
  intro h
  have : M a b ∈ cross M A B := (mem_cross M A B _).mpr ⟨a, ha, b, hb, rfl⟩
  rw [h] at this; cases this

def NonEmpty (cs : St) : Prop := ∀ c ∈ cs, c.2 ≠ []

omit [ScoreOps S] [LinearOrder S] [ScoreLaws S] in
theorem nonEmpty_init (n : Nat) : NonEmpty (init n) := by
  intro c hc
  simp only [init, List.mem_map] at hc
  obtain ⟨i, _, rfl⟩ := hc
  simp

/-- what a merge step looks like, up to permutation of the cluster list -/
theorem next_perm (cfg : Cfg) (M : Nat → Nat → S) (cs cs' : St) (m : S)
    (h : next cfg M cs = some (m, cs')) :
    ∃ (a b : Nat × List Nat) (rest : St), (a :: b :: rest).Perm cs ∧
      cs'.Perm ((a.1, a.2 ++ b.2) :: rest) ∧ m = linkage cfg.link M a.2 b.2 := by
  obtain ⟨p, q, hp, hq, hne, rfl, hm, _⟩ := next_spec cfg M cs m cs' h
  obtain ⟨rest, h1, h2, _⟩ := mergeAt_perm cs p q hp hq hne
  exact ⟨cs[p], cs[q], rest, h1, h2, hm⟩

/-! ### single linkage = connected components -/

/-- connectivity in the undirected graph joining items at distance `≤ t` -/
def Connected (M : Nat → Nat → S) (t : S) : Nat → Nat → Prop :=
  Relation.ReflTransGen (fun a b => M a b ≤ t ∨ M b a ≤ t)

def ConnInv (M : Nat → Nat → S) (t : S) (cs : St) : Prop :=
  NonEmpty cs ∧ ∀ c ∈ cs, ∀ x ∈ c.2, ∀ y ∈ c.2, Connected M t x y

theorem connected_symm (M : Nat → Nat → S) (t : S) {x y : Nat} (h : Connected M t x y) :
    Connected M t y x := by
  induction h with
  | refl => exact Relation.ReflTransGen.refl
  | tail _ hbc ih => exact Relation.ReflTransGen.head (hbc.symm) ih

theorem connInv_step (cfg : Cfg) (hl : cfg.link = .single) (M : Nat → Nat → S) (t : S)
    (cs : St) (m : S) (cs' : St) (hP : ConnInv M t cs)
    (hn : next cfg M cs = some (m, cs')) (hm : le m t = true) : ConnInv M t cs' := by
  obtain ⟨a, b, rest, h1, h2, hmv⟩ := next_perm cfg M cs cs' m hn
  obtain ⟨hne, hconn⟩ := hP
  have ha : a ∈ cs := h1.mem_iff.mp (by simp)
  have hb : b ∈ cs := h1.mem_iff.mp (by simp)
  have hrest : ∀ c ∈ rest, c ∈ cs := fun c hc => h1.mem_iff.mp (by simp [hc])
  -- the merged pair is joined by an edge
  rw [hl] at hmv
  simp only [linkage] at hmv
  have hcne := cross_ne_nil M a.2 b.2 (hne a ha) (hne b hb)
  obtain ⟨hmin, _⟩ := listMin_spec (cross M a.2 b.2) hcne
  rw [← hmv, mem_cross] at hmin
  obtain ⟨u, hu, v, hv, huv⟩ := hmin
  have hedge : Connected M t u v := by
    apply Relation.ReflTransGen.single
    left; rw [← huv, ← le_iff]; exact hm
  constructor
  · intro c hc
    rcases List.mem_cons.mp (h2.mem_iff.mp hc) with rfl | hc
    · simp [hne a ha]
    · exact hne c (hrest c hc)
  · intro c hc x hx y hy
    rcases List.mem_cons.mp (h2.mem_iff.mp hc) with rfl | hc
    · simp only [List.mem_append] at hx hy
      rcases hx with hx | hx <;> rcases hy with hy | hy
      · exact hconn a ha x hx y hy
      · exact ((hconn a ha x hx u hu).trans hedge).trans (hconn b hb v hv y hy)
      · exact ((hconn b hb x hx v hv).trans (connected_symm M t hedge)).trans (hconn a ha u hu y hy)
      · exact hconn b hb x hx y hy
    · exact hconn c (hrest c hc) x hx y hy

/-- **C05, single linkage, part 1**: every returned cluster is connected in the `≤ t` graph. -/
theorem C05_single_connected (cfg : Cfg) (hl : cfg.link = .single) (M : Nat → Nat → S) (t : S) (n : Nat) :
    ∀ c ∈ flatCluster cfg M t n, ∀ x ∈ c.2, ∀ y ∈ c.2, Connected M t x y := by
  have := run_inv (ConnInv M t) cfg M t (fun cs m cs' => connInv_step cfg hl M t cs m cs') n (init n) (by
    refine ⟨nonEmpty_init n, ?_⟩
    intro c hc x hx y hy
    simp only [init, List.mem_map] at hc
    obtain ⟨i, _, rfl⟩ := hc
    simp only [List.mem_singleton] at hx hy
    subst hx hy
    exact Relation.ReflTransGen.refl)
  exact this.2

theorem nonEmpty_flatCluster (cfg : Cfg) (M : Nat → Nat → S) (t : S) (n : Nat) :
    NonEmpty (flatCluster cfg M t n) := by
  refine run_inv NonEmpty cfg M t ?_ n (init n) (nonEmpty_init n)
  intro cs m cs' hne hn _
  obtain ⟨a, b, rest, h1, h2, _⟩ := next_perm cfg M cs cs' m hn
  intro c hc
  rcases List.mem_cons.mp (h2.mem_iff.mp hc) with rfl | hc
  · have : a ∈ cs := h1.mem_iff.mp (by simp)
    simp [hne a this]
  · exact hne c (h1.mem_iff.mp (by simp [hc]))

/-- **C05, single linkage, part 2**: no edge of the `≤ t` graph joins two different returned
clusters.  Together with part 1 and the partition theorem: the clusters are exactly the
connected components. -/
theorem C05_single_separated (cfg : Cfg) (hl : cfg.link = .single) (hu : cfg.unordered = false)
    (M : Nat → Nat → S) (t : S) (n : Nat)
    (p q : Nat) (hp : p < (flatCluster cfg M t n).length) (hq : q < (flatCluster cfg M t n).length)
    (hne : p ≠ q) (x y : Nat) (hx : x ∈ (flatCluster cfg M t n)[p].2) (hy : y ∈ (flatCluster cfg M t n)[q].2) :
    t < M x y := by
  have h := C05_stop cfg hu M t n p q hp hq hne
  rw [hl] at h
  simp only [linkage] at h
  have hN := nonEmpty_flatCluster cfg M t n
  have hc := cross_ne_nil M _ _ (hN _ (List.getElem_mem hp)) (hN _ (List.getElem_mem hq))
  have := (listMin_spec _ hc).2 (M x y) ((mem_cross M _ _ _).mpr ⟨x, hx, y, hy, rfl⟩)
  order

/-! ### complete linkage: diameter -/

def DiamInv (M : Nat → Nat → S) (t : S) (cs : St) : Prop :=
  NonEmpty cs ∧ ∀ c ∈ cs, ∀ x ∈ c.2, ∀ y ∈ c.2, x ≠ y → M x y ≤ t

/-- **C05, complete linkage**: for a symmetric matrix every within-cluster distance is `≤ t`. -/
theorem C05_complete_diameter (cfg : Cfg) (hl : cfg.link = .complete) (M : Nat → Nat → S)
    (hsym : ∀ i j, M i j = M j i) (t : S) (n : Nat) :
    ∀ c ∈ flatCluster cfg M t n, ∀ x ∈ c.2, ∀ y ∈ c.2, x ≠ y → M x y ≤ t := by
  have := run_inv (DiamInv M t) cfg M t (by
    intro cs m cs' hP hn hm
    obtain ⟨a, b, rest, h1, h2, hmv⟩ := next_perm cfg M cs cs' m hn
    obtain ⟨hne, hd⟩ := hP
    have ha : a ∈ cs := h1.mem_iff.mp (by simp)
    have hb : b ∈ cs := h1.mem_iff.mp (by simp)
    have hrest : ∀ c ∈ rest, c ∈ cs := fun c hc => h1.mem_iff.mp (by simp [hc])
    rw [hl] at hmv
    simp only [linkage] at hmv
    have hcne := cross_ne_nil M a.2 b.2 (hne a ha) (hne b hb)
    have hmax := (listMax_spec (cross M a.2 b.2) hcne).2
    rw [← hmv] at hmax
    have hmt : m ≤ t := by rw [← le_iff]; exact hm
    constructor
    · intro c hc
      rcases List.mem_cons.mp (h2.mem_iff.mp hc) with rfl | hc
      · simp [hne a ha]
      · exact hne c (hrest c hc)
    · intro c hc x hx y hy hxy
      rcases List.mem_cons.mp (h2.mem_iff.mp hc) with rfl | hc
      · simp only [List.mem_append] at hx hy
        rcases hx with hx | hx <;> rcases hy with hy | hy
        · exact hd a ha x hx y hy hxy
        · exact le_trans (hmax _ ((mem_cross M _ _ _).mpr ⟨x, hx, y, hy, rfl⟩)) hmt
        · rw [hsym]; exact le_trans (hmax _ ((mem_cross M _ _ _).mpr ⟨y, hy, x, hx, rfl⟩)) hmt
        · exact hd b hb x hx y hy hxy
      · exact hd c (hrest c hc) x hx y hy hxy) n (init n) (by
    refine ⟨nonEmpty_init n, ?_⟩
    intro c hc x hx y hy hxy
    simp only [init, List.mem_map] at hc
    obtain ⟨i, _, rfl⟩ := hc
    simp only [List.mem_singleton] at hx hy
    omega)
  exact this.2

end Verif.Cluster
