/-
# C13 — the `<dst>` block as a whole: lines written with four-decimal values, read back, rebuilt
(composition of `C13_dst_line`, `C13_fixed4_roundtrip` and `C13_dst_rebuild`)
-/
import Verif.Props.C13Dst
import Verif.Props.C13Num
namespace Verif.Dst
open Verif.Num

abbrev Cell := Bool × Nat      -- sign, magnitude · 10⁴

def cellText (c : Cell) : List Nat := renderFixed4 c.1 c.2
def cellRead (v : List Nat) : Cell := (parseFixed4 v).getD (false, 0)

/-- the data lines `matrix2dst` writes -/
def writeBlock (names : List (List Nat)) (M : List (List Cell)) : List (List Nat) :=
  (names.zip M).map fun p => writeLine p.1 (p.2.map cellText)

/-- `read_dst` on every line, then the rebuild of `read_qlc` -/
def readBlock (lines : List (List Nat)) : List (List Cell) :=
  rebuild (false, 0) (lines.map fun l => (readLine l).2.map cellRead)

theorem frac4_ne_blank (r : Nat) : ∀ c ∈ frac4 r, c ≠ 32 := by
  intro c hc
  simp only [frac4, List.mem_cons, List.mem_nil_iff, or_false] at hc
  omega

theorem cellText_tok (c : Cell) : Tok (cellText c) := by
  constructor
  · unfold cellText renderFixed4
    cases c.1 <;> simp
  · unfold cellText renderFixed4
    intro h
    simp only [List.mem_append, List.mem_cons] at h
    rcases h with (h | h) | h | h
    · cases hc : c.1 <;> simp [hc] at h
    · have := renderNat_digits _ 32 h; omega
    · omega
    · exact frac4_ne_blank _ 32 h rfl

theorem cellRead_cellText (c : Cell) : cellRead (cellText c) = c := by
  simp [cellRead, cellText, C13_fixed4_roundtrip]

theorem read_write_rows : ∀ (names : List (List Nat)) (M : List (List Cell)), names.length = M.length →
    ((writeBlock names M).map fun l => (readLine l).2.map cellRead) = M := by
  intro names M hlen
  unfold writeBlock
  rw [List.map_map]
  have : ∀ p ∈ names.zip M, ((fun l => (readLine l).2.map cellRead) ∘ fun p => writeLine p.1 (p.2.map cellText)) p = p.2 := by
    intro p _
    simp only [Function.comp]
    rw [(C13_dst_line p.1 (p.2.map cellText) (by
      intro v hv
      obtain ⟨c, _, rfl⟩ := List.mem_map.mp hv
      exact cellText_tok c)).1]
    simp [List.map_map, Function.comp_def, cellRead_cellText]
  rw [List.map_congr_left this]
  exact List.map_snd_zip (by omega)

/-- **C13, the `<dst>` block**: a square, symmetric matrix with zero diagonal of four-decimal values, written line by
line under any names and read back, is the matrix that was written. -/
theorem C13_dst_block (names : List (List Nat)) (M : List (List Cell)) (hlen : names.length = M.length)
    (hsq : ∀ r ∈ M, r.length = M.length)
    (hsym : ∀ i j, i < M.length → j < M.length → cellOf (false, 0) M i j = cellOf (false, 0) M j i)
    (hdiag : ∀ i, i < M.length → cellOf (false, 0) M i i = (false, 0)) :
    readBlock (writeBlock names M) = M := by
  unfold readBlock
  rw [read_write_rows names M hlen]
  exact C13_dst_rebuild (false, 0) M hsq hsym hdiag

/-- the hypotheses are satisfiable: two languages at distance 0.5 -/
example : readBlock (writeBlock [[65], [66, 67]] [[(false, 0), (false, 5000)], [(false, 5000), (false, 0)]]) =
    [[(false, 0), (false, 5000)], [(false, 5000), (false, 0)]] := by
  apply C13_dst_block _ _ rfl
  · intro r hr; simp at hr; rcases hr with rfl | rfl <;> rfl
  · intro i j hi hj
    have hi' : i = 0 ∨ i = 1 := by simp at hi; omega
    have hj' : j = 0 ∨ j = 1 := by simp at hj; omega
    rcases hi' with rfl | rfl <;> rcases hj' with rfl | rfl <;> rfl
  · intro i hi
    have hi' : i = 0 ∨ i = 1 := by simp at hi; omega
    rcases hi' with rfl | rfl <;> rfl

end Verif.Dst
