/-
C08 at the level of the whole reference tree: the weight of the scenario returned by `get_gls`
is the cost of a consistent labeling of the WHOLE tree (not only of the analysed subtree below the
common ancestor of the presences).  Together with `C08_getGls` (lower bound against every
consistent labeling of the whole tree) this makes the returned weight the minimum.

The step that was missing: a labeling of the subtree found by `lcaSub` extends to the whole tree at
no cost, because every present leaf lies inside that subtree (that is what `lcaSub` guarantees:
`lcaSub_step_contains`) – all other nodes are labelled "absent", which is consistent with absent and
missing leaves and produces no event.
-/
import Verif.Props.C08

namespace Verif.GL

/-! ### helper facts about labelings -/

mutual
theorem labCost_congr (w : Nat × Nat) (L L' : Nat → Int) :
    ∀ (t : GTree), (∀ k ∈ nodeNames t, L k = L' k) → labCost w L t = labCost w L' t
  | .leaf n, _ => by simp [labCost]
  | .node n cs, h => by
    simp only [labCost]
    have hn : L n = L' n := h n (by simp [nodeNames])
    rw [hn]
    exact labCostL_congr w L L' cs (L' n) (fun k hk => h k (by simp [nodeNames, hk]))
theorem labCostL_congr (w : Nat × Nat) (L L' : Nat → Int) :
    ∀ (ts : List GTree) (σ : Int), (∀ k ∈ nodeNamesL ts, L k = L' k) → labCostL w L σ ts = labCostL w L' σ ts
  | [], _, _ => by simp [labCostL]
  | t :: ts, σ, h => by
    simp only [labCostL]
    have h1 : ∀ k ∈ nodeNames t, L k = L' k := fun k hk => h k (by simp [nodeNamesL, hk])
    have h2 : ∀ k ∈ nodeNamesL ts, L k = L' k := fun k hk => h k (by simp [nodeNamesL, hk])
    have hname : L t.name = L' t.name := h1 _ (by cases t <;> simp [nodeNames, GTree.name])
    rw [labCost_congr w L L' t h1, labCostL_congr w L L' ts σ h2, hname]
end

theorem costFrom_congr (w : Nat × Nat) (L L' : Nat → Int) (σ : Int) (t : GTree)
    (h : ∀ k ∈ nodeNames t, L k = L' k) : costFrom w L σ t = costFrom w L' σ t := by
  simp only [costFrom, labCost_congr w L L' t h, h _ (name_mem_nodeNames t)]

mutual
/-- a labeling that is constant on the nodes of a subtree produces no event inside it -/
theorem labCost_const (w : Nat × Nat) (L : Nat → Int) (v : Int) :
    ∀ (t : GTree), (∀ k ∈ nodeNames t, L k = v) → labCost w L t = 0
  | .leaf n, _ => by simp [labCost]
  | .node n cs, h => by
    simp only [labCost]
    rw [h n (by simp [nodeNames])]
    exact labCostL_const w L v cs (fun k hk => h k (by simp [nodeNames, hk]))
theorem labCostL_const (w : Nat × Nat) (L : Nat → Int) (v : Int) :
    ∀ (ts : List GTree), (∀ k ∈ nodeNamesL ts, L k = v) → labCostL w L v ts = 0
  | [], _ => by simp [labCostL]
  | t :: ts, h => by
    simp only [labCostL]
    have h1 : ∀ k ∈ nodeNames t, L k = v := fun k hk => h k (by simp [nodeNamesL, hk])
    have h2 : ∀ k ∈ nodeNamesL ts, L k = v := fun k hk => h k (by simp [nodeNamesL, hk])
    rw [labCost_const w L v t h1, labCostL_const w L v ts h2, h1 _ (name_mem_nodeNames t)]
    simp [edgeCost]
end

mutual
theorem leaf_sub_node : ∀ (t : GTree), ∀ k ∈ leafNames t, k ∈ nodeNames t
  | .leaf n, k, h => by simpa [leafNames, nodeNames] using h
  | .node n cs, k, h => by
    simp only [leafNames] at h
    simp only [nodeNames, List.mem_cons]
    exact Or.inr (leafL_sub_nodeL cs k h)
theorem leafL_sub_nodeL : ∀ (ts : List GTree), ∀ k ∈ leafNamesL ts, k ∈ nodeNamesL ts
  | [], k, h => by simp [leafNamesL] at h
  | t :: ts, k, h => by
    simp only [leafNamesL, List.mem_append] at h
    simp only [nodeNamesL, List.mem_append]
    rcases h with h | h
    · exact Or.inl (leaf_sub_node t k h)
    · exact Or.inr (leafL_sub_nodeL ts k h)
end

theorem nodeNames_child : ∀ (cs : List GTree) (c : GTree), c ∈ cs → ∀ k ∈ nodeNames c, k ∈ nodeNamesL cs
  | [], c, h, _, _ => by cases h
  | t :: ts, c, h, k, hk => by
    simp only [nodeNamesL, List.mem_append]
    rcases List.mem_cons.mp h with rfl | h
    · exact Or.inl hk
    · exact Or.inr (nodeNames_child ts c h k hk)

theorem nodupL_child : ∀ (cs : List GTree) (c : GTree), c ∈ cs → (nodeNamesL cs).Nodup → (nodeNames c).Nodup
  | [], c, h, _ => by cases h
  | t :: ts, c, h, hnd => by
    simp only [nodeNamesL] at hnd
    have := List.nodup_append.mp hnd
    rcases List.mem_cons.mp h with rfl | h
    · exact this.1
    · exact nodupL_child ts c h this.2.1

/-- among siblings with pairwise distinct node names, a labeling that follows `L` on the child `c`
and is "absent" on all other nodes costs, counted from an absent parent, what `L` costs on `c` -/
theorem labCostL_single (w : Nat × Nat) (L L1 : Nat → Int) (c : GTree) :
    ∀ (cs : List GTree), (nodeNamesL cs).Nodup → c ∈ cs →
      (∀ k ∈ nodeNames c, L1 k = L k) → (∀ k ∈ nodeNamesL cs, k ∉ nodeNames c → L1 k = 0) →
      labCostL w L1 0 cs = costFrom w L 0 c
  | [], _, h, _, _ => by cases h
  | t :: ts, hnd, h, hin, hout => by
    simp only [nodeNamesL] at hnd hout
    have hsplit := List.nodup_append.mp hnd
    simp only [labCostL]
    by_cases hct : c = t
    · subst hct
      have hzero : ∀ k ∈ nodeNamesL ts, L1 k = 0 := by
        intro k hk
        refine hout k (List.mem_append.mpr (Or.inr hk)) ?_
        intro hkc
        exact hsplit.2.2 k hkc k hk rfl
      rw [labCostL_const w L1 0 ts hzero]
      have := costFrom_congr w L1 L 0 c hin
      simp only [costFrom] at this ⊢
      omega
    · have hmem : c ∈ ts := by
        rcases List.mem_cons.mp h with h | h
        · exact absurd h hct
        · exact h
      have hzero : ∀ k ∈ nodeNames t, L1 k = 0 := by
        intro k hk
        refine hout k (List.mem_append.mpr (Or.inl hk)) ?_
        intro hkc
        exact hsplit.2.2 k hk k (nodeNames_child ts c hmem k hkc) rfl
      have ih := labCostL_single w L L1 c ts hsplit.2.1 hmem hin
        (fun k hk hkc => hout k (List.mem_append.mpr (Or.inr hk)) hkc)
      rw [labCost_const w L1 0 t hzero, hzero _ (name_mem_nodeNames t), ih]
      simp [edgeCost]

/-! ### what `lcaSub` guarantees -/

/-- induction along the descent of `lcaSub`, knowing at each step that the child contains all of `ps` -/
theorem lcaSub_induct' (P : GTree → Prop) (ps : List Nat)
    (hstep : ∀ n cs c, c ∈ cs → containsAll ps c = true → P (.node n cs) → P c) :
    ∀ (f : Nat) (t : GTree), P t → P (lcaSub ps f t)
  | 0, t, h => by simpa [lcaSub] using h
  | f+1, .leaf n, h => by simpa [lcaSub] using h
  | f+1, .node n cs, h => by
    simp only [lcaSub]
    split
    · rename_i c hfind
      have hc : containsAll ps c = true := by
        have := List.find?_some hfind
        simpa using this
      exact lcaSub_induct' P ps hstep f c (hstep n cs c (List.mem_of_find?_eq_some hfind) hc h)
    · exact h

/-- with pairwise distinct node names a leaf of a sibling is not a node of `c` -/
theorem sibling_disjoint (c : GTree) (k : Nat) :
    ∀ (cs : List GTree), (nodeNamesL cs).Nodup → c ∈ cs → k ∈ leafNamesL cs → k ∉ leafNames c → k ∉ nodeNames c
  | [], _, h, _, _ => by cases h
  | t :: ts, hnd, hc, hk, hkl => by
    simp only [nodeNamesL] at hnd
    have hsplit := List.nodup_append.mp hnd
    simp only [leafNamesL, List.mem_append] at hk
    rcases List.mem_cons.mp hc with hct | hct
    · subst hct
      rcases hk with hk | hk
      · exact absurd hk hkl
      · intro hkc
        exact hsplit.2.2 k hkc k (leafL_sub_nodeL ts k hk) rfl
    · rcases hk with hk | hk
      · intro hkc
        exact hsplit.2.2 k (leaf_sub_node t k hk) k (nodeNames_child ts c hct k hkc) rfl
      · exact sibling_disjoint c k ts hsplit.2.1 hct hk hkl

/-- the extension statement carried down the descent -/
def Ext (w : Nat × Nat) (pat : Nat → Int) (t s : GTree) : Prop :=
  ∀ L, Labeling L → Consistent pat L s →
    ∃ L', Labeling L' ∧ Consistent pat L' t ∧ costFrom w L' 0 t = costFrom w L 0 s

theorem ext_step (w : Nat × Nat) (pat : Nat → Int) (hpat : ∀ n, StateOk (pat n)) (t : GTree) (ps : List Nat)
    (hps : ∀ k ∈ leafNames t, pat k = 1 → k ∈ ps)
    (n : Nat) (cs : List GTree) (c : GTree) (hc : c ∈ cs) (hall : containsAll ps c = true)
    (hnd : (nodeNames (.node n cs)).Nodup) (hsub : ∀ k ∈ leafNames (.node n cs), k ∈ leafNames t)
    (hext : Ext w pat t (.node n cs)) : Ext w pat t c := by
  intro L hL hcons
  simp only [nodeNames, List.nodup_cons] at hnd
  have hcsub : ∀ k ∈ nodeNames c, k ∈ nodeNamesL cs := nodeNames_child cs c hc
  let L1 : Nat → Int := fun k => if k ∈ nodeNames c then L k else 0
  have hin : ∀ k ∈ nodeNames c, L1 k = L k := by intro k hk; simp [L1, hk]
  have hout : ∀ k, k ∉ nodeNames c → L1 k = 0 := by intro k hk; simp [L1, hk]
  have hL1 : Labeling L1 := by
    intro k
    by_cases hk : k ∈ nodeNames c
    · rw [hin k hk]; exact hL k
    · rw [hout k hk]; exact Or.inl rfl
  have hcons1 : Consistent pat L1 (.node n cs) := by
    intro k hk hknown
    by_cases hkl : k ∈ leafNames c
    · rw [hin k (leaf_sub_node c k hkl)]; exact hcons k hkl hknown
    · simp only [leafNames] at hk
      have hkc : k ∉ nodeNames c := sibling_disjoint c k cs hnd.2 hc hk hkl
      rw [hout k hkc]
      rcases hpat k with hp | hp | hp
      · exfalso
        have hkps := hps k (hsub k (by simpa [leafNames] using hk)) hp
        have : k ∈ leafNames c := by
          have := List.all_eq_true.mp hall k hkps
          simpa using this
        exact hkl this
      · exact hp.symm
      · exact absurd hp hknown
  obtain ⟨L', h1, h2, h3⟩ := hext L1 hL1 hcons1
  refine ⟨L', h1, h2, ?_⟩
  rw [h3]
  have hn : L1 n = 0 := hout n (fun hnc => hnd.1 (hcsub n hnc))
  have hs := labCostL_single w L L1 c cs hnd.2 hc hin (fun k _ hkc => hout k hkc)
  simp only [costFrom, labCost, name_node, hn, hs]
  simp [edgeCost]

/-- **C08, whole tree, achievability**: the weight of the scenario `get_gls` returns is at least the
cost of some consistent labeling of the whole reference tree. -/
theorem C08_getGls_achievable (cfg : Cfg) (md : Int) (t : GTree) (pat : List (Nat × Int))
    (hpat : ∀ n, StateOk (patOf md pat n)) (hnd : (nodeNames t).Nodup)
    (story : Story) (h : getGls cfg md t pat = some story) :
    ∃ L, Labeling L ∧ Consistent (patOf md pat) L t ∧ costFrom cfg.w L 0 t ≤ weightOf cfg.w story := by
  unfold getGls glsCandidates at h
  simp only at h
  generalize hps : (leafNames t).filter (fun n => patOf md pat n == 1) = ps at h
  have hpsmem : ∀ k ∈ leafNames t, patOf md pat k = 1 → k ∈ ps := by
    intro k hk hp
    rw [← hps]
    exact List.mem_filter.mpr ⟨hk, by simp [hp]⟩
  have hsub := lcaSub_induct'
    (fun s => (nodeNames s).Nodup ∧ (∀ k ∈ leafNames s, k ∈ leafNames t) ∧ Ext cfg.w (patOf md pat) t s) ps
    (by
      intro n cs c hc hall ⟨h1, h2, h3⟩
      refine ⟨?_, ?_, ?_⟩
      · simp only [nodeNames, List.nodup_cons] at h1
        exact nodupL_child cs c hc h1.2
      · intro k hk; exact h2 k (by simp only [leafNames]; exact leafNames_child cs c hc k hk)
      · exact ext_step cfg.w (patOf md pat) hpat t ps hpsmem n cs c hc hall h1 h2 h3)
    (size t) t ⟨hnd, fun _ hk => hk, fun L hL hc => ⟨L, hL, hc, rfl⟩⟩
  generalize lcaSub ps (size t) t = sub at h hsub
  obtain ⟨s1, _, s3⟩ := hsub
  split at h
  · rename_i hallp
    simp only [pickFinal, List.foldl_nil, Option.some.injEq] at h
    subst h
    obtain ⟨L', h1, h2, h3⟩ := s3 (fun _ => 1) (fun _ => Or.inr rfl) (by
      intro k hk _
      have := List.all_eq_true.mp hallp k hk
      simp only [beq_iff_eq] at this
      exact this.symm)
    refine ⟨L', h1, h2, ?_⟩
    rw [h3]
    have hw : weightOf cfg.w [(sub.name, (1 : Int))] = cfg.w.1 := by
      simp [weightOf_cons, weightOf_nil]
    rw [hw]
    simp only [costFrom, labCost_const cfg.w (fun _ => (1 : Int)) 1 sub (fun _ _ => rfl)]
    simp [edgeCost]
  · obtain ⟨L, hL, hc, hcost⟩ := C08_achievable cfg (patOf md pat) hpat sub s1 story h
    obtain ⟨L', h1, h2, h3⟩ := s3 L hL hc
    exact ⟨L', h1, h2, by rw [h3]; exact hcost⟩

/-- **C08 at the level of `get_gls`, whole tree**: with a limit that cannot bind, the weight of the
returned scenario IS the minimum cost over all consistent labelings of the whole reference tree -
it is the cost of one of them and at most the cost of each. -/
theorem C08_getGls_minimum (cfg : Cfg) (hamf : cfg.allMissingFirst = true) (md : Int) (t : GTree) (pat : List (Nat × Int))
    (hpat : ∀ n, StateOk (patOf md pat n)) (hnd : (nodeNames t).Nodup) (hg : (nodeNames t).length ≤ cfg.gpl)
    (hp : proper t = true) (story : Story) (h : getGls cfg md t pat = some story) :
    (∃ L, Labeling L ∧ Consistent (patOf md pat) L t ∧ costFrom cfg.w L 0 t = weightOf cfg.w story) ∧
    ∀ L, Labeling L → Consistent (patOf md pat) L t → weightOf cfg.w story ≤ costFrom cfg.w L 0 t := by
  have hlow := C08_getGls cfg hamf md t pat hpat hg hp story h
  obtain ⟨L, h1, h2, h3⟩ := C08_getGls_achievable cfg md t pat hpat hnd story h
  exact ⟨⟨L, h1, h2, Nat.le_antisymm h3 (hlow L h1 h2)⟩, hlow⟩

/-! not vacuous: the example tree of `C08.lean` meets the hypotheses and `get_gls` answers on it -/
example : (nodeNames exTree).Nodup := by decide
example : ∃ L, Labeling L ∧ Consistent (patOf (-1) exPat) L exTree ∧ costFrom exCfg.w L 0 exTree = 2 := by
  have h := (C08_getGls_minimum exCfg rfl (-1) exTree exPat
    (patOf_stateOk (-1) (Or.inr rfl) exPat (by unfold StateOk exPat; decide)) (by decide) (by decide) (by decide)
    [(1, 1), (11, 1)] (by decide)).1
  simpa [weightOf, count, exCfg] using h

end Verif.GL
