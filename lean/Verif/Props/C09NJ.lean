import Verif.Props.C09
set_option linter.unusedSimpArgs false
set_option linter.unusedVariables false
/-!
# C09 — structure of the Neighbor-Joining join sequence

For every matrix and carrier: every join removes two clusters and adds their union, no taxon is lost
or duplicated, and for `n ≥ 1` taxa the builder performs exactly `n − 1` joins and ends with one
cluster holding every taxon once.
-/
namespace Verif.TreeBuild
open Verif.Align Verif.Cluster ScoreOps
variable {S : Type} [ScoreOps S]

theorem perm_filter_ne : ∀ (l : List Nat) (x : Nat), l.Nodup → x ∈ l → l.Perm (x :: l.filter (· != x))
  | [], _, _, h => by cases h
  | y :: ys, x, hnd, hx => by
    have hn := List.nodup_cons.mp hnd
    by_cases hxy : y = x
    · subst hxy
      have : ys.filter (· != y) = ys := by
        apply List.filter_eq_self.mpr
        intro a ha
        have : a ≠ y := fun e => hn.1 (e ▸ ha)
        simpa using this
      simp [this]
    · have hx' : x ∈ ys := by
        rcases List.mem_cons.mp hx with h | h
        · exact absurd h.symm hxy
        · exact h
      have ih := perm_filter_ne ys x hn.2 hx'
      have hb : (y != x) = true := by simpa using hxy
      simp only [List.filter_cons, hb, if_true]
      exact (List.Perm.cons y ih).trans (List.Perm.swap x y _)

theorem argMin_none (lm : Bool) (l : List ((Nat × Nat) × S)) (h : argMin lm l = none) : l = [] := by
  cases l with
  | nil => rfl
  | cons x xs => simp [argMin] at h

theorem flatten_singletons : ∀ (l : List Nat), (l.map fun i => [i]).flatten = l
  | [] => rfl
  | x :: xs => by simp [flatten_singletons xs]

theorem flatten_map_perm {l l' : List Nat} (g : Nat → List Nat) (h : l.Perm l') :
    (l.map g).flatten.Perm (l'.map g).flatten := (h.map g).flatten

theorem clusters_as_map (cs : List (List Nat)) : cs = (List.range cs.length).map fun i => cs.getD i [] := by
  apply List.ext_getElem
  · simp
  · intro i h1 h2
    simp [List.getD_eq_getElem?_getD, List.getElem?_eq_getElem h1]

/-- what one join does to the clusters (length ≥ 3) -/
theorem nj_merge_perm (cs : List (List Nat)) (ia ib : Nat) (hab : ia < ib) (hb : ib < cs.length) :
    let keys := (List.range cs.length).filter (· != ib)
    let newC := keys.map fun key => if key = ia then cs.getD ia [] ++ cs.getD ib [] else cs.getD key []
    newC.flatten.Perm cs.flatten ∧ newC.length + 1 = cs.length := by
  intro keys newC
  let g := fun i => cs.getD i []
  let f := fun key => if key = ia then cs.getD ia [] ++ cs.getD ib [] else cs.getD key []
  have hk1 : (List.range cs.length).Perm (ib :: keys) :=
    perm_filter_ne _ ib List.nodup_range (List.mem_range.mpr hb)
  have hia : ia ∈ keys := List.mem_filter.mpr ⟨List.mem_range.mpr (by omega), by simpa using (by omega : ia ≠ ib)⟩
  have hkn : keys.Nodup := List.nodup_range.filter _
  have hk2 : keys.Perm (ia :: keys.filter (· != ia)) := perm_filter_ne keys ia hkn hia
  have hcongr : (keys.filter (· != ia)).map f = (keys.filter (· != ia)).map g := by
    apply List.map_congr_left
    intro key hkey
    have : key ≠ ia := by simpa using (List.mem_filter.mp hkey).2
    simp [f, g, this]
  constructor
  · -- both sides are permutations of g ia ++ g ib ++ rest
    have h1 : newC.flatten.Perm ((ia :: keys.filter (· != ia)).map f).flatten := flatten_map_perm f hk2
    have h2 : cs.flatten.Perm ((ib :: keys).map g).flatten := by
      conv => lhs; rw [clusters_as_map cs]
      exact flatten_map_perm g hk1
    have h3 : ((ib :: keys).map g).flatten.Perm (g ib ++ ((ia :: keys.filter (· != ia)).map g).flatten) := by
      simp only [List.map_cons, List.flatten_cons]
      exact List.Perm.append_left _ (flatten_map_perm g hk2)
    have h4 : ((ia :: keys.filter (· != ia)).map f).flatten.Perm
        (g ib ++ ((ia :: keys.filter (· != ia)).map g).flatten) := by
      simp only [List.map_cons, List.flatten_cons, hcongr]
      have : f ia = g ia ++ g ib := by simp [f, g]
      rw [this, List.append_assoc]
      exact List.perm_append_comm_assoc _ _ _
    exact h1.trans (h4.trans (h2.trans h3).symm)
  · have := hk1.length_eq
    simp only [List.length_range, List.length_cons] at this
    simp only [newC, List.length_map]
    omega

theorem njStep_spec (st st' : NState S) (h : njStep st = some st') :
    st'.clusters.flatten.Perm st.clusters.flatten ∧ st'.clusters.length + 1 = st.clusters.length ∧
    st'.rows.length = st.rows.length + 1 := by
  unfold njStep at h
  simp only at h
  split at h
  · cases h
  · split at h
    · rename_i h1 h2
      simp only [Option.some.injEq] at h
      subst h
      have hc : st.clusters = [st.clusters.getD 0 [], st.clusters.getD 1 []] := by
        conv => lhs; rw [clusters_as_map st.clusters]
        simp [h2, List.range_succ]
      refine ⟨?_, by simp [h2], by simp⟩
      conv => rhs; rw [hc]
      simp
    · rename_i h1 h2
      split at h
      · cases h
      · rename_i ia ib m heq
        have hmem := argMin_mem _ _ _ heq
        simp only [List.mem_flatMap, List.mem_map, List.mem_filter, List.mem_range, decide_eq_true_eq,
          Prod.mk.injEq] at hmem
        obtain ⟨i, hi, j, ⟨hj, hij⟩, ⟨rfl, rfl⟩, _⟩ := hmem
        simp only [Option.some.injEq] at h
        subst h
        obtain ⟨p1, p2⟩ := nj_merge_perm st.clusters i j hij hj
        exact ⟨p1, p2, by simp⟩

theorem njStep_some (st : NState S) (h : 2 ≤ st.clusters.length) : ∃ st', njStep st = some st' := by
  unfold njStep
  simp only
  have h1 : ¬ st.clusters.length ≤ 1 := by omega
  simp only [h1, if_false]
  by_cases h2 : st.clusters.length = 2
  · simp only [h2, if_true]; exact ⟨_, rfl⟩
  · simp only [h2, if_false]
    split
    · rename_i heq
      exfalso
      have hnil := argMin_none _ _ heq
      simp only [List.flatMap_eq_nil_iff, List.map_eq_nil_iff, List.filter_eq_nil_iff, List.mem_range,
        decide_eq_true_eq] at hnil
      exact hnil 0 (by omega) 1 (by omega) (by omega)
    · exact ⟨_, rfl⟩

theorem njRun_spec (fuel : Nat) (st : NState S) (hf : st.clusters.length ≤ fuel + 1) (hne : 1 ≤ st.clusters.length) :
    (njRun fuel st).clusters.flatten.Perm st.clusters.flatten ∧ (njRun fuel st).clusters.length = 1 ∧
    (njRun fuel st).rows.length + 1 = st.rows.length + st.clusters.length := by
  induction fuel generalizing st with
  | zero => simp only [njRun]; exact ⟨List.Perm.refl _, by omega, by omega⟩
  | succ f ih =>
    simp only [njRun]
    by_cases h2 : 2 ≤ st.clusters.length
    · obtain ⟨st', hs⟩ := njStep_some st h2
      obtain ⟨h1, hl, hr⟩ := njStep_spec st st' hs
      rw [hs]
      simp only
      obtain ⟨i1, i2, i3⟩ := ih st' (by omega) (by omega)
      exact ⟨i1.trans h1, i2, by omega⟩
    · have h1 : st.clusters.length = 1 := by omega
      have hn : njStep st = none := by simp [njStep, h1]
      rw [hn]
      simp only
      exact ⟨List.Perm.refl _, h1, by omega⟩

/-- **C09, structure (Neighbor-Joining)** -/
theorem C09_nj_structure (M : List (List S)) (n : Nat) (hn : 1 ≤ n) :
    (neighbor M n).clusters.flatten.Perm (List.range n) ∧ (neighbor M n).clusters.length = 1 ∧
    (neighbor M n).rows.length = n - 1 := by
  have := njRun_spec (S := S) n ⟨(List.range n).map fun i => [i], M, (List.range n).map fun i => ([i], i), []⟩
    (by simp) (by simp; omega)
  unfold neighbor
  simp only [List.length_map, List.length_range, List.length_nil] at this
  refine ⟨?_, this.2.1, by omega⟩
  have h1 := this.1
  rw [flatten_singletons] at h1
  exact h1

end Verif.TreeBuild
