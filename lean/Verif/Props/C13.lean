import Verif.Model.Cell
/-!
# C13 — cell round trip through the TSV format

`parse τ (ser v) = v` whenever the column's namespace tag matches the kind of value stored in
it; and for an integer stored in an untyped (string) column the value does **not** come back
(this is the defect class the generated obligation `RoundTripTyped` guards against).
-/
namespace Verif.Cell

theorem allNum_map (l : List Int) : allNum (l.map .num) = some l := by
  induction l with
  | nil => rfl
  | cons n r ih => simp [allNum, ih]

theorem allFlt_map (l : List Nat) : allFlt (l.map .flt) = some l := by
  induction l with
  | nil => rfl
  | cons n r ih => simp [allFlt, ih]

/-- **C13, cell round trip**. -/
theorem C13_cell (τ : Tag) (v : Val) (h : kindOk τ v = true) : parse τ (ser v) = v := by
  cases τ <;> cases v <;> simp [kindOk] at h <;> simp [parse, ser, allNum_map, allFlt_map]

/-- an integer (or list) stored in a column that has no type in the namespace comes back as text -/
theorem C13_untyped_loses_type (n : Int) : parse .str (ser (.int n)) ≠ .int n := by
  simp [parse, ser]

theorem C13_untyped_loses_list (l : List Int) : parse .str (ser (.ints l)) ≠ .ints l := by
  simp [parse, ser]

/-- a whole row of typed cells round-trips when every column is well typed -/
theorem C13_row (cols : List (Tag × Val)) (h : ∀ p ∈ cols, kindOk p.1 p.2 = true) :
    cols.map (fun p => parse p.1 (ser p.2)) = cols.map (·.2) := by
  apply List.map_congr_left
  intro p hp
  exact C13_cell p.1 p.2 (h p hp)

end Verif.Cell
