import Verif.Model.NewickText
set_option linter.unusedSimpArgs false
set_option linter.unusedVariables false
/-!
# C15 — the Newick text level: what `getNewick` writes for a name is read back by the tokeniser

`label_quoted`, `label_plain`: for a name that contains no line break, tab or carriage return and does NOT
START WITH AN APOSTROPHE, the text `escapeName name` followed by a structural character is read (with
`underscore_unmunge=False`, as lingpy reads trees) as exactly one label, `canonName name` – the name itself
when it had to be quoted, the name with blanks replaced by underscores otherwise – followed by that
character.  `C15_text_roundtrip` lifts this to whole trees: tokenising `render t` gives the token stream
`outs t`, on which the token-level theorems of `C15Newick.lean` take over.

The hypothesis about the leading apostrophe is forced by the proof and is a finding about the code: the
split expression tries `''` before `'`, so `'''Are''are'` (the correct Newick for the name `'Are'are`) is
read as an empty label followed by another label – see `leading_apostrophe_fails`, the recorded finding
`newick-name-leading-apostrophe`, and DESIGN §10.3.
-/
namespace Verif.NewickText

theorem pieces_nil (cur : List Char) (ws : Bool) : pieces cur ws [] = flushP cur [] := by
  conv => lhs; rw [pieces.eq_def]

theorem pieces_ws_cont (cur : List Char) (c : Char) (rest : List Char) (hc : isWs c = true) :
    pieces cur true (c :: rest) = pieces (cur ++ [c]) true rest := by
  conv => lhs; rw [pieces.eq_def]
  simp [hc]

theorem pieces_ws_start (cur : List Char) (c : Char) (rest : List Char) (hc : isWs c = true) :
    pieces cur false (c :: rest) = flushP cur (pieces [c] true rest) := by
  conv => lhs; rw [pieces.eq_def]
  simp [hc]

theorem pieces_qq (cur : List Char) (ws : Bool) (c : Char) (rest : List Char) (hc : c = '\'' ∨ c = '"') :
    pieces cur ws (c :: c :: rest) = flushP cur ([c, c] :: pieces [] false rest) := by
  conv => lhs; rw [pieces.eq_def]
  rcases hc with rfl | rfl <;> simp [isWs]

theorem pieces_q1 (cur : List Char) (ws : Bool) (c d : Char) (rest : List Char) (hc : c = '\'' ∨ c = '"') (hd : d ≠ c) :
    pieces cur ws (c :: d :: rest) = flushP cur ([c] :: pieces [] false (d :: rest)) := by
  conv => lhs; rw [pieces.eq_def]
  rcases hc with rfl | rfl <;> simp [isWs, hd]

theorem pieces_delim (cur : List Char) (ws : Bool) (c : Char) (rest : List Char)
    (h1 : isWs c = false) (h2 : c ≠ '\n') (h3 : c ≠ '\'') (h4 : c ≠ '"') (h5 : isDelim c = true) :
    pieces cur ws (c :: rest) = flushP cur ([c] :: pieces [] false rest) := by
  conv => lhs; rw [pieces.eq_def]
  simp [h1, h2, h3, h4, h5]

theorem pieces_ord_cont (cur : List Char) (c : Char) (rest : List Char)
    (h1 : isWs c = false) (h2 : c ≠ '\n') (h5 : isDelim c = false) :
    pieces cur false (c :: rest) = pieces (cur ++ [c]) false rest := by
  have h3 : c ≠ '\'' := by intro h; subst h; simp [isDelim] at h5
  have h4 : c ≠ '"' := by intro h; subst h; simp [isDelim] at h5
  conv => lhs; rw [pieces.eq_def]
  simp [h1, h2, h3, h4, h5]

theorem pieces_ord_start (cur : List Char) (c : Char) (rest : List Char)
    (h1 : isWs c = false) (h2 : c ≠ '\n') (h5 : isDelim c = false) :
    pieces cur true (c :: rest) = flushP cur (pieces [c] false rest) := by
  have h3 : c ≠ '\'' := by intro h; subst h; simp [isDelim] at h5
  have h4 : c ≠ '"' := by intro h; subst h; simp [isDelim] at h5
  conv => lhs; rw [pieces.eq_def]
  simp [h1, h2, h3, h4, h5]

/-! ### inside a quoted label -/

/-- a piece that is simply appended while a `'`-quoted label is open -/
def Plain (p : List Char) : Prop := p ≠ ['\''] ∧ p ≠ ['\n'] ∧ p ≠ ['\'', '\'']

theorem step_quoted_plain (t p : List Char) (hp : Plain p) :
    stepTok false ⟨some t, some '\'', false⟩ p = some (⟨some (t ++ p), some '\'', false⟩, []) := by
  obtain ⟨h1, h2, h3⟩ := hp
  simp [stepTok, h1, h2, h3]

theorem step_quoted_qq (t : List Char) :
    stepTok false ⟨some t, some '\'', false⟩ ['\'', '\''] = some (⟨some (t ++ ['\'']), some '\'', false⟩, []) := by
  simp [stepTok]

theorem step_quoted_close (t : List Char) :
    stepTok false ⟨some t, some '\'', false⟩ ['\''] = some (⟨none, none, false⟩, [.label t]) := by
  simp [stepTok]

/-- running over a flushed pending piece inside a quoted label -/
theorem run_flush_quoted (t cur : List Char) (l : List (List Char)) (hcur : cur = [] ∨ Plain cur) :
    runToks false ⟨some t, some '\'', false⟩ (flushP cur l) = runToks false ⟨some (t ++ cur), some '\'', false⟩ l := by
  unfold flushP
  by_cases hc : cur = []
  · subst hc; simp
  · rcases hcur with h | h
    · exact absurd h hc
    · have : cur.isEmpty = false := by cases cur <;> simp_all
      simp only [this, Bool.false_eq_true, if_false, runToks, step_quoted_plain t cur h]
      simp

theorem plain_of_free (cur : List Char) (h1 : '\'' ∉ cur) (h2 : '\n' ∉ cur) : cur = [] ∨ Plain cur := by
  by_cases hc : cur = []
  · exact Or.inl hc
  · right
    refine ⟨?_, ?_, ?_⟩ <;> (intro h; subst h; simp at h1 h2)

theorem dq_cons_ne (c : Char) (ns : List Char) (hc : c ≠ '\'') : doubleQuotes (c :: ns) = c :: doubleQuotes ns := by
  simp [doubleQuotes, hc]

theorem dq_cons_q (ns : List Char) : doubleQuotes ('\'' :: ns) = '\'' :: '\'' :: doubleQuotes ns := by
  simp [doubleQuotes]

/-- the head of what follows when `ns` does not start with a double quote -/
theorem dq_head (ns tail : List Char) (h : ns.head? ≠ some '"') :
    ∃ e X, doubleQuotes ns ++ '\'' :: tail = e :: X ∧ e ≠ '"' := by
  cases ns with
  | nil => exact ⟨'\'', tail, by simp [doubleQuotes], by decide⟩
  | cons e ns' =>
    by_cases he : e = '\''
    · subst he; exact ⟨'\'', '\'' :: (doubleQuotes ns' ++ '\'' :: tail), by simp [doubleQuotes], by decide⟩
    · refine ⟨e, doubleQuotes ns' ++ '\'' :: tail, by rw [dq_cons_ne e ns' he]; rfl, ?_⟩
      intro h'; subst h'; simp at h

theorem mapcons_eq {α : Type} (x y : List α) (o : Option (List α)) (h : x = y) :
    o.map (fun l => x ++ l) = o.map (fun l => y ++ l) := by rw [h]

/-- **inside the quotes**: the body written by `doubleQuotes`, then the closing quote, is read as the name -/
theorem quoted_body : ∀ (n : Nat) (name : List Char), name.length ≤ n → '\n' ∉ name →
    ∀ (cur : List Char) (ws : Bool) (t : List Char) (d : Char) (rest : List Char), d ≠ '\'' → '\'' ∉ cur → '\n' ∉ cur →
    runToks false ⟨some t, some '\'', false⟩ (pieces cur ws (doubleQuotes name ++ '\'' :: d :: rest)) =
      (runToks false ⟨none, none, false⟩ (pieces [] false (d :: rest))).map (fun o => Out.label (t ++ cur ++ name) :: o) := by
  intro n
  induction n with
  | zero =>
    intro name hlen _ cur ws t d rest hd hq hn
    have : name = [] := by cases name <;> simp_all
    subst this
    simp only [doubleQuotes, List.nil_append]
    rw [pieces_q1 cur ws '\'' d rest (Or.inl rfl) hd, run_flush_quoted t cur _ (plain_of_free cur hq hn)]
    simp only [runToks, step_quoted_close]
    simp
  | succ n ih =>
    intro name hlen hnl cur ws t d rest hd hq hn
    cases name with
    | nil =>
      simp only [doubleQuotes, List.nil_append]
      rw [pieces_q1 cur ws '\'' d rest (Or.inl rfl) hd, run_flush_quoted t cur _ (plain_of_free cur hq hn)]
      simp only [runToks, step_quoted_close]
      simp
    | cons c ns =>
      have hlen' : ns.length ≤ n := by simp at hlen; omega
      have hnl' : '\n' ∉ ns := fun h => hnl (List.mem_cons_of_mem _ h)
      have hcn : c ≠ '\n' := fun h => hnl (by rw [h]; exact List.mem_cons_self)
      by_cases hcq : c = '\''
      · -- an apostrophe in the name: written doubled, read as one
        subst hcq
        rw [dq_cons_q, List.cons_append, List.cons_append, pieces_qq cur ws '\'' _ (Or.inl rfl),
          run_flush_quoted t cur _ (plain_of_free cur hq hn)]
        simp only [runToks, step_quoted_qq, List.nil_append, Option.map_map]
        rw [ih ns hlen' hnl' [] false _ d rest hd (by simp) (by simp)]
        simp [Function.comp_def]
      · rw [dq_cons_ne c ns hcq, List.cons_append]
        by_cases hws : isWs c = true
        · -- blanks inside the quotes
          cases ws with
          | true =>
            rw [pieces_ws_cont cur c _ hws,
              ih ns hlen' hnl' (cur ++ [c]) true t d rest hd
                (by simp only [List.mem_append, List.mem_singleton, not_or]; exact ⟨hq, Ne.symm hcq⟩)
                (by simp only [List.mem_append, List.mem_singleton, not_or]; exact ⟨hn, Ne.symm hcn⟩)]
            simp
          | false =>
            rw [pieces_ws_start cur c _ hws, run_flush_quoted t cur _ (plain_of_free cur hq hn),
              ih ns hlen' hnl' [c] true (t ++ cur) d rest hd
                (by simp only [List.mem_singleton]; exact Ne.symm hcq) (by simp only [List.mem_singleton]; exact Ne.symm hcn)]
            simp
        · have hws' : isWs c = false := by simpa using hws
          by_cases hdq : c = '"'
          · subst hdq
            by_cases hns : ns.head? = some '"'
            · -- two double quotes: one piece, appended as it is
              cases ns with
              | nil => simp at hns
              | cons e ns' =>
                simp only [List.head?_cons, Option.some.injEq] at hns
                subst hns
                have hlen'' : ns'.length ≤ n := by simp at hlen'; omega
                have hnl'' : '\n' ∉ ns' := fun h => hnl' (List.mem_cons_of_mem _ h)
                rw [dq_cons_ne '"' ns' (by decide), List.cons_append, pieces_qq cur ws '"' _ (Or.inr rfl),
                  run_flush_quoted t cur _ (plain_of_free cur hq hn)]
                have hpl : Plain ['"', '"'] := by refine ⟨?_, ?_, ?_⟩ <;> decide
                simp only [runToks, step_quoted_plain _ _ hpl, List.nil_append, Option.map_map]
                rw [ih ns' hlen'' hnl'' [] false _ d rest hd (by simp) (by simp)]
                simp [Function.comp_def]
            · obtain ⟨e, X, hX, he⟩ := dq_head ns (d :: rest) hns
              rw [hX, pieces_q1 cur ws '"' e X (Or.inr rfl) he, ← hX,
                run_flush_quoted t cur _ (plain_of_free cur hq hn)]
              have hpl : Plain ['"'] := by refine ⟨?_, ?_, ?_⟩ <;> decide
              simp only [runToks, step_quoted_plain _ _ hpl, List.nil_append, Option.map_map]
              rw [ih ns hlen' hnl' [] false _ d rest hd (by simp) (by simp)]
              simp [Function.comp_def]
          · by_cases hdel : isDelim c = true
            · -- another structural character inside the quotes
              rw [pieces_delim cur ws c _ hws' hcn hcq hdq hdel, run_flush_quoted t cur _ (plain_of_free cur hq hn)]
              have hpl : Plain [c] := by
                refine ⟨?_, ?_, ?_⟩
                · intro h; simp at h; exact hcq h
                · intro h; simp at h; exact hcn h
                · intro h; simp at h
              simp only [runToks, step_quoted_plain _ _ hpl, List.nil_append, Option.map_map]
              rw [ih ns hlen' hnl' [] false _ d rest hd (by simp) (by simp)]
              simp [Function.comp_def]
            · have hdel' : isDelim c = false := by simpa using hdel
              cases ws with
              | true =>
                rw [pieces_ord_start cur c _ hws' hcn hdel', run_flush_quoted t cur _ (plain_of_free cur hq hn),
                  ih ns hlen' hnl' [c] false (t ++ cur) d rest hd
                    (by simp only [List.mem_singleton]; exact Ne.symm hcq) (by simp only [List.mem_singleton]; exact Ne.symm hcn)]
                simp
              | false =>
                rw [pieces_ord_cont cur c _ hws' hcn hdel',
                  ih ns hlen' hnl' (cur ++ [c]) false t d rest hd
                    (by simp only [List.mem_append, List.mem_singleton, not_or]; exact ⟨hq, Ne.symm hcq⟩)
                    (by simp only [List.mem_append, List.mem_singleton, not_or]; exact ⟨hn, Ne.symm hcn⟩)]
                simp

/-! ### structural characters and labels, from the neutral state -/

def Closer (d : Char) : Prop := d = ',' ∨ d = ')' ∨ d = ';' ∨ d = '(' ∨ d = ':'

theorem closer_step (d : Char) (rest : List Char) (hd : Closer d) :
    runToks false initSt (pieces [] false (d :: rest)) =
      (runToks false initSt (pieces [] false rest)).map (fun o => Out.sym d :: o) := by
  have h : pieces [] false (d :: rest) = [d] :: pieces [] false rest := by
    rcases hd with rfl | rfl | rfl | rfl | rfl <;>
      (rw [pieces_delim [] false _ rest (by decide) (by decide) (by decide) (by decide) (by decide)]; rfl)
  rw [h]
  rcases hd with rfl | rfl | rfl | rfl | rfl <;> simp [runToks, stepTok, initSt, isBreak, closeText]

/-- **a name that had to be quoted** comes back as it is -/
theorem label_quoted (name : List Char) (d : Char) (rest : List Char) (hsp : name.any isSpecial = true)
    (hhead : name.head? ≠ some '\'') (hnl : '\n' ∉ name) (hd : Closer d) :
    runToks false initSt (pieces [] false (escapeName name ++ d :: rest)) =
      (runToks false initSt (pieces [] false rest)).map (fun o => [Out.label name, Out.sym d] ++ o) := by
  have hdq : d ≠ '\'' := by rcases hd with rfl | rfl | rfl | rfl | rfl <;> decide
  have hesc : escapeName name = '\'' :: doubleQuotes name ++ ['\''] := by
    unfold escapeName
    have : (name.head? == some '\'') = false := by simpa using hhead
    simp [this, hsp]
  cases name with
  | nil => simp at hsp
  | cons e ns =>
    have he : e ≠ '\'' := by intro h; subst h; simp at hhead
    rw [hesc, dq_cons_ne e ns he]
    have hshape : '\'' :: (e :: doubleQuotes ns) ++ ['\''] ++ d :: rest =
        '\'' :: e :: (doubleQuotes ns ++ '\'' :: d :: rest) := by simp
    rw [hshape, pieces_q1 [] false '\'' e _ (Or.inl rfl) he]
    have hback : e :: (doubleQuotes ns ++ '\'' :: d :: rest) = doubleQuotes (e :: ns) ++ '\'' :: d :: rest := by
      rw [dq_cons_ne e ns he]; rfl
    rw [hback]
    simp only [flushP, List.isEmpty_nil, if_true, runToks]
    have hopen : stepTok false initSt ['\''] = some (⟨some [], some '\'', false⟩, []) := by
      simp [stepTok, initSt, isBreak]
    simp only [hopen, List.nil_append, Option.map_map]
    rw [quoted_body (e :: ns).length (e :: ns) (Nat.le_refl _) hnl [] false [] d rest hdq (by simp) (by simp)]
    have hcs := closer_step d rest hd
    simp only [initSt] at hcs ⊢
    rw [hcs]
    simp [Function.comp_def]

/-- ordinary characters: not blank or tab, not a line break, not structural -/
def Ord (c : Char) : Prop := isWs c = false ∧ c ≠ '\n' ∧ c ≠ '\r' ∧ isDelim c = false

theorem pieces_ord_run : ∀ (s cur : List Char) (tail : List Char), (∀ c ∈ s, Ord c) →
    pieces cur false (s ++ tail) = pieces (cur ++ s) false tail
  | [], cur, tail, _ => by simp
  | c :: cs, cur, tail, h => by
    obtain ⟨h1, h2, _, h4⟩ := h c (by simp)
    rw [List.cons_append, pieces_ord_cont cur c _ h1 h2 h4,
      pieces_ord_run cs (cur ++ [c]) tail (fun x hx => h x (by simp [hx]))]
    simp

theorem dropWhile_none {α : Type} (p : α → Bool) : ∀ (l : List α), (∀ x ∈ l, p x = false) → l.dropWhile p = l
  | [], _ => rfl
  | x :: xs, h => by simp [List.dropWhile, h x (by simp)]

theorem strip_ord (s : List Char) (h : ∀ c ∈ s, Ord c) : strip s = s := by
  have hsp : ∀ c ∈ s, (c == ' ' || c == '\t' || c == '\n' || c == '\r') = false := by
    intro c hc
    obtain ⟨h1, h2, h3, _⟩ := h c hc
    simp only [isWs, Bool.or_eq_false_iff, beq_eq_false_iff_ne] at h1
    simp [h1.1, h1.2, h2, h3]
  unfold strip
  simp only
  rw [dropWhile_none _ s hsp, dropWhile_none _ s.reverse (fun c hc => hsp c (List.mem_reverse.mp hc))]
  simp

theorem step_text_start (p : List Char) (hne : p ≠ []) (h : ∀ c ∈ p, Ord c) :
    stepTok false initSt p = some (⟨some p, none, false⟩, []) := by
  have hs : strip p = p := strip_ord p h
  cases p with
  | nil => exact absurd rfl hne
  | cons c cs =>
    obtain ⟨h1, h2, h3, h4⟩ := h c (by simp)
    have hq1 : c ≠ '\'' := by intro e; subst e; simp [isDelim] at h4
    have hq2 : c ≠ '"' := by intro e; subst e; simp [isDelim] at h4
    cases cs with
    | nil =>
      have hb : isBreak c = false := by
        simp only [isDelim, Bool.or_eq_false_iff, beq_eq_false_iff_ne] at h4
        simp [isBreak, h2, h4]
      simp [stepTok, initSt, hb, hq1, hq2, hs]
    | cons c2 cs' =>
      have hne1 : (c :: c2 :: cs' == ['\'', '\'']) = false := by
        simp [hq1]
      have hne2 : (c :: c2 :: cs' == ['"', '"']) = false := by
        simp [hq2]
      simp [stepTok, initSt, hs, hq1, hq2]

/-- **a name without special characters**: blanks are written as underscores, and that is what is read -/
theorem label_plain (name : List Char) (d : Char) (rest : List Char) (hne : name ≠ [])
    (hsp : name.any isSpecial = false) (hch : ∀ c ∈ name, c = ' ' ∨ Ord c) (hd : Closer d) :
    runToks false initSt (pieces [] false (escapeName name ++ d :: rest)) =
      (runToks false initSt (pieces [] false rest)).map (fun o => [Out.label (blanksToUnderscores name), Out.sym d] ++ o) := by
  have hesc : escapeName name = blanksToUnderscores name := by
    unfold escapeName
    have h1 : (name.head? == some '\'') = false := by
      cases name with
      | nil => rfl
      | cons e ns =>
        have : isSpecial e = false := by
          have := List.any_eq_false.mp hsp e (by simp)
          simpa using this
        simp only [List.head?_cons, beq_eq_false_iff_ne, ne_eq, Option.some.injEq]
        intro h; subst h; simp [isSpecial, isDelim] at this
    simp [h1, hsp]
  have hord : ∀ c ∈ blanksToUnderscores name, Ord c := by
    intro c hc
    simp only [blanksToUnderscores, List.mem_map] at hc
    obtain ⟨x, hx, rfl⟩ := hc
    by_cases hb : x = ' '
    · subst hb; simp only [beq_self_eq_true, if_true]; refine ⟨?_, ?_, ?_, ?_⟩ <;> decide
    · rcases hch x hx with h | h
      · exact absurd h hb
      · have : (x == ' ') = false := by simpa using hb
        simpa [this] using h
  have hne' : blanksToUnderscores name ≠ [] := by simpa [blanksToUnderscores] using hne
  rw [hesc, pieces_ord_run (blanksToUnderscores name) [] (d :: rest) hord, List.nil_append]
  have hdp : pieces (blanksToUnderscores name) false (d :: rest) =
      blanksToUnderscores name :: [d] :: pieces [] false rest := by
    have hem : (blanksToUnderscores name).isEmpty = false := by
      cases h : blanksToUnderscores name <;> simp_all
    rcases hd with rfl | rfl | rfl | rfl | rfl <;>
      (rw [pieces_delim _ false _ rest (by decide) (by decide) (by decide) (by decide) (by decide)]
       simp [flushP, hem])
  rw [hdp]
  simp only [runToks, step_text_start _ hne' hord, List.nil_append, Option.map_map]
  have hs : strip (blanksToUnderscores name) = blanksToUnderscores name := strip_ord _ hord
  have hem : (blanksToUnderscores name).isEmpty = false := by
    cases h : blanksToUnderscores name <;> simp_all
  rcases hd with rfl | rfl | rfl | rfl | rfl <;>
    simp [stepTok, isBreak, closeText, hem, hs, munge, initSt, Function.comp_def]

/-! ### every name the theorem covers, and whole trees -/

/-- names the round trip is proved for: not empty, not starting with an apostrophe, no line break, tab or carriage return -/
def NameOk (name : List Char) : Prop :=
  name ≠ [] ∧ name.head? ≠ some '\'' ∧ ∀ c ∈ name, c ≠ '\n' ∧ c ≠ '\t' ∧ c ≠ '\r'

/-- **C15, a name written by `getNewick` is read back** (as itself if it had to be quoted, with underscores for
blanks otherwise – lingpy reads trees with `underscore_unmunge=False`) -/
theorem label_roundtrip (name : List Char) (d : Char) (rest : List Char) (hok : NameOk name) (hd : Closer d) :
    runToks false initSt (pieces [] false (escapeName name ++ d :: rest)) =
      (runToks false initSt (pieces [] false rest)).map (fun o => [Out.label (canonName name), Out.sym d] ++ o) := by
  obtain ⟨hne, hhead, hch⟩ := hok
  unfold canonName
  by_cases hsp : name.any isSpecial = true
  · rw [if_pos hsp]
    exact label_quoted name d rest hsp hhead (fun h => (hch _ h).1 rfl) hd
  · have hsp' : name.any isSpecial = false := by simpa using hsp
    rw [if_neg hsp]
    refine label_plain name d rest hne hsp' ?_ hd
    intro c hc
    by_cases hb : c = ' '
    · exact Or.inl hb
    · right
      obtain ⟨h1, h2, h3⟩ := hch c hc
      have hnsp : isSpecial c = false := by
        have := List.any_eq_false.mp hsp' c hc
        simpa using this
      refine ⟨?_, h1, h3, ?_⟩
      · simp [isWs, hb, h2]
      · simp only [isSpecial, Bool.or_eq_false_iff] at hnsp; exact hnsp.1

mutual
def TreeOk : TTree → Prop
  | .leaf n => NameOk n
  | .node cs => TreeOkL cs
def TreeOkL : List TTree → Prop
  | [] => True
  | t :: ts => TreeOk t ∧ TreeOkL ts
end

mutual
theorem render_tokens : ∀ (t : TTree), TreeOk t → ∀ (d : Char) (rest : List Char), Closer d →
    runToks false initSt (pieces [] false (render t ++ d :: rest)) =
      (runToks false initSt (pieces [] false rest)).map (fun o => outs t ++ Out.sym d :: o)
  | .leaf n, h, d, rest, hd => by
    simp only [render, outs]
    rw [label_roundtrip n d rest h hd]
    simp
  | .node cs, h, d, rest, hd => by
    simp only [render, outs, TreeOk] at h ⊢
    have e : '(' :: renderL cs ++ [')'] ++ d :: rest = '(' :: (renderL cs ++ ')' :: d :: rest) := by simp
    rw [e, closer_step '(' _ (Or.inr (Or.inr (Or.inr (Or.inl rfl)))), renderL_tokens cs h (d :: rest), closer_step d rest hd]
    simp [Function.comp_def]
theorem renderL_tokens : ∀ (ts : List TTree), TreeOkL ts → ∀ (rest : List Char),
    runToks false initSt (pieces [] false (renderL ts ++ ')' :: rest)) =
      (runToks false initSt (pieces [] false rest)).map (fun o => outsL ts ++ Out.sym ')' :: o)
  | [], _, rest => by
    simp only [renderL, outsL, List.nil_append]
    exact closer_step ')' rest (Or.inr (Or.inl rfl))
  | [t], h, rest => by
    simp only [renderL, outsL, TreeOkL] at h ⊢
    exact render_tokens t h.1 ')' rest (Or.inr (Or.inl rfl))
  | t :: t' :: ts, h, rest => by
    simp only [TreeOkL] at h
    simp only [renderL, outsL]
    have e : render t ++ ',' :: renderL (t' :: ts) ++ ')' :: rest = render t ++ ',' :: (renderL (t' :: ts) ++ ')' :: rest) := by simp
    rw [e, render_tokens t h.1 ',' _ (Or.inl rfl), renderL_tokens (t' :: ts) (by simp only [TreeOkL]; exact h.2) rest]
    simp [Function.comp_def]
end

/-- **C15, text level**: the text written for a tree is tokenised to the token stream of the tree -/
theorem C15_text_roundtrip (t : TTree) (h : TreeOk t) :
    tokenise false (render t ++ [';']) = some (outs t ++ [Out.sym ';', Out.eot]) := by
  unfold tokenise
  rw [render_tokens t h ';' [] (Or.inr (Or.inr (Or.inl rfl))), pieces_nil]
  simp [flushP, runToks, closeText, initSt]

/-! ### the excluded names: the hypothesis is necessary -/

/-- **a name that starts with an apostrophe is NOT read back**: the text written for it begins with three
apostrophes, the split takes the first two as one piece, and the reader reports an EMPTY label first
(`newick-name-leading-apostrophe`; the real parser then fails with "Already have a name") -/
theorem leading_apostrophe_fails (ns tail : List Char) (hlast : ('\'' :: ns).getLast? ≠ some '\'') :
    ∃ o : Option (List Out), runToks false initSt (pieces [] false (escapeName ('\'' :: ns) ++ tail)) = o.map (fun l => Out.label [] :: l) := by
  have hesc : escapeName ('\'' :: ns) = '\'' :: '\'' :: '\'' :: doubleQuotes ns ++ ['\''] := by
    unfold escapeName
    have h1 : (('\'' :: ns).getLast? == some '\'') = false := by simpa using hlast
    simp [h1, isSpecial, isDelim, doubleQuotes]
  rw [hesc]
  have e : '\'' :: '\'' :: '\'' :: doubleQuotes ns ++ ['\''] ++ tail = '\'' :: '\'' :: ('\'' :: doubleQuotes ns ++ ['\''] ++ tail) := by simp
  rw [e, pieces_qq [] false '\'' _ (Or.inl rfl)]
  simp only [flushP, List.isEmpty_nil, if_true, runToks]
  have hstep : stepTok false initSt ['\'', '\''] = some (initSt, [Out.label []]) := by
    simp [stepTok, initSt]
  rw [hstep]
  exact ⟨_, rfl⟩

/-- the hypotheses are satisfiable: a tree with a quoted name, a name with a blank and an apostrophe inside a name -/
example : TreeOk (.node [.leaf "Old N".toList, .leaf "Xi'an".toList, .node [.leaf "a_b".toList, .leaf "c".toList]]) := by
  simp only [TreeOk, TreeOkL, NameOk]
  refine ⟨⟨?_, ?_, ?_⟩, ⟨?_, ?_, ?_⟩, ⟨⟨?_, ?_, ?_⟩, ⟨?_, ?_, ?_⟩, trivial⟩, trivial⟩ <;> decide

end Verif.NewickText
