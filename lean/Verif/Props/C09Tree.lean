import Verif.Props.C09NJRun
set_option linter.unusedSectionVars false
set_option linter.unusedSimpArgs false
set_option linter.unusedVariables false
/-!
# C09 — from a tree with branch lengths to its split system

`Props/C09Cherry.lean` describes a tree metric without a tree, as a weighted system of compatible splits.
This file closes the gap to the property's wording ("an additive metric generated from a tree with
positive branch lengths"): for a rooted binary tree with branch lengths (`PT`; an unrooted tree is one
of its rootings, the two root edges then carry the same split) the path length between two leaves is
the split metric of the list of its edges (`dist_splits_eq_pd`), the splits are pairwise compatible
(`splits_compat`) and positive when the branch lengths are, hence

`C09_nj_tree`: for every such tree on the taxa `0 … n-1`, Neighbor-Joining (the model of `_neighbor`, exact
arithmetic) on the matrix of its path lengths returns a tree matrix whose path sums are the path lengths
of the generating tree, for every pair of taxa.
-/
namespace Verif.TreeBuild
open Verif.NJ

inductive PT where
  | leaf (i : Nat)
  | node (l : PT) (wl : ℚ) (r : PT) (wr : ℚ)

namespace PT

def leaves : PT → List Nat
  | leaf i => [i]
  | node l _ r _ => l.leaves ++ r.leaves

/-- length of the path from the root of the (sub)tree down to leaf `i` -/
def depth : PT → Nat → ℚ
  | leaf _, _ => 0
  | node l wl r wr, i =>
    if i ∈ l.leaves then wl + l.depth i else if i ∈ r.leaves then wr + r.depth i else 0

/-- length of the path between two leaves -/
def pd : PT → Nat → Nat → ℚ
  | leaf _, _, _ => 0
  | node l wl r wr, i, j =>
    if i ∈ l.leaves ∧ j ∈ l.leaves then l.pd i j
    else if i ∈ r.leaves ∧ j ∈ r.leaves then r.pd i j
    else if i ∈ l.leaves ∧ j ∈ r.leaves then (wl + l.depth i) + (wr + r.depth j)
    else if i ∈ r.leaves ∧ j ∈ l.leaves then (wr + r.depth i) + (wl + l.depth j)
    else 0

/-- one split per edge: the leaves below it against the rest -/
def splits : PT → List (Split × ℚ)
  | leaf _ => []
  | node l wl r wr =>
    ((fun m => decide (m ∈ l.leaves)), wl) :: ((fun m => decide (m ∈ r.leaves)), wr) :: (l.splits ++ r.splits)

def Pos : PT → Prop
  | leaf _ => True
  | node l wl r wr => 0 < wl ∧ 0 < wr ∧ l.Pos ∧ r.Pos

end PT

theorem dist_append (L1 L2 : List (Split × ℚ)) (x y : Nat) : dist (L1 ++ L2) x y = dist L1 x y + dist L2 x y := by
  simp [dist, List.map_append, List.sum_append]

theorem dist_cons (p : Split × ℚ) (L : List (Split × ℚ)) (x y : Nat) : dist (p :: L) x y = p.2 * sep p.1 x y + dist L x y := by
  simp [dist]

theorem splits_below (t : PT) : ∀ p ∈ t.splits, ∀ m, p.1 m = true → m ∈ t.leaves := by
  induction t with
  | leaf i => intro p hp; simp [PT.splits] at hp
  | node l wl r wr ihl ihr =>
    intro p hp m hm
    simp only [PT.splits, List.mem_cons, List.mem_append] at hp
    simp only [PT.leaves, List.mem_append]
    rcases hp with rfl | rfl | hp | hp
    · left; simpa using hm
    · right; simpa using hm
    · left; exact ihl p hp m hm
    · right; exact ihr p hp m hm

/-- two leaves outside the subtree are not separated by its edges -/
theorem dist_out (t : PT) (i j : Nat) (hi : i ∉ t.leaves) (hj : j ∉ t.leaves) : dist t.splits i j = 0 := by
  unfold dist
  apply List.sum_eq_zero
  intro v hv
  simp only [List.mem_map] at hv
  obtain ⟨p, hp, rfl⟩ := hv
  have h1 : p.1 i = false := by
    by_contra h
    exact hi (splits_below t p hp i (by simpa using h))
  have h2 : p.1 j = false := by
    by_contra h
    exact hj (splits_below t p hp j (by simpa using h))
  simp [sep, h1, h2]

/-- a leaf of the subtree and a leaf outside: separated exactly by the edges above the leaf -/
theorem dist_depth (t : PT) (hnd : t.leaves.Nodup) (i j : Nat) (hi : i ∈ t.leaves) (hj : j ∉ t.leaves) :
    dist t.splits i j = t.depth i := by
  induction t with
  | leaf k => simp [PT.splits, PT.depth, dist]
  | node l wl r wr ihl ihr =>
    simp only [PT.leaves, List.mem_append, not_or] at hi hj
    have hnd' := List.nodup_append.mp hnd
    simp only [PT.splits, dist_cons, dist_append, PT.depth]
    rcases hi with hi | hi
    · have hir : i ∉ r.leaves := fun h => hnd'.2.2 i hi i h rfl
      rw [ihl hnd'.1 hi hj.1, dist_out r i j hir hj.2]
      simp [sep, hi, hir, hj.1, hj.2]
    · have hil : i ∉ l.leaves := fun h => hnd'.2.2 i h i hi rfl
      rw [ihr hnd'.2.1 hi hj.2, dist_out l i j hil hj.1]
      simp [sep, hi, hil, hj.1, hj.2]

theorem dist_comm' (L : List (Split × ℚ)) (x y : Nat) : dist L x y = dist L y x := dist_comm L x y

/-- **the path metric of a tree is the split metric of its edges** -/
theorem dist_splits_eq_pd (t : PT) (hnd : t.leaves.Nodup) (i j : Nat) (hi : i ∈ t.leaves) (hj : j ∈ t.leaves) :
    dist t.splits i j = t.pd i j := by
  induction t with
  | leaf k => simp [PT.splits, PT.pd, dist]
  | node l wl r wr ihl ihr =>
    simp only [PT.leaves, List.mem_append] at hi hj
    have hnd' := List.nodup_append.mp hnd
    have hlr : ∀ m, m ∈ l.leaves → m ∉ r.leaves := fun m h1 h2 => hnd'.2.2 m h1 m h2 rfl
    simp only [PT.splits, dist_cons, dist_append, PT.pd]
    rcases hi with hi | hi <;> rcases hj with hj | hj
    · have hir := hlr i hi
      have hjr := hlr j hj
      rw [ihl hnd'.1 hi hj, dist_out r i j hir hjr]
      simp [sep, hi, hj, hir, hjr]
    · have hir := hlr i hi
      have hjl : j ∉ l.leaves := fun h => hlr j h hj
      rw [dist_depth l hnd'.1 i j hi hjl, dist_comm r.splits i j, dist_depth r hnd'.2.1 j i hj hir]
      simp [sep, hi, hj, hir, hjl]
      ring
    · have hil : i ∉ l.leaves := fun h => hlr i h hi
      have hjr := hlr j hj
      rw [dist_comm l.splits i j, dist_depth l hnd'.1 j i hj hil, dist_depth r hnd'.2.1 i j hi hjr]
      simp [sep, hi, hj, hil, hjr]
      ring
    · have hil : i ∉ l.leaves := fun h => hlr i h hi
      have hjl : j ∉ l.leaves := fun h => hlr j h hj
      rw [ihr hnd'.2.1 hi hj, dist_out l i j hil hjl]
      simp [sep, hi, hj, hil, hjl]

theorem compat_symm (k : Nat) (s t : Split) (h : Compat k s t) : Compat k t s := by
  obtain ⟨a, b, hab⟩ := h
  exact ⟨b, a, fun m hm hh => hab m hm ⟨hh.2, hh.1⟩⟩

/-- the clades of a tree are nested or disjoint -/
theorem splits_compat (k : Nat) (t : PT) (hnd : t.leaves.Nodup) : ∀ p ∈ t.splits, ∀ q ∈ t.splits, Compat k p.1 q.1 := by
  induction t with
  | leaf i => intro p hp; simp [PT.splits] at hp
  | node l wl r wr ihl ihr =>
    have hnd' := List.nodup_append.mp hnd
    have hlr : ∀ m, m ∈ l.leaves → m ∉ r.leaves := fun m h1 h2 => hnd'.2.2 m h1 m h2 rfl
    -- the basic relations
    have cLL : Compat k (fun m => decide (m ∈ l.leaves)) (fun m => decide (m ∈ l.leaves)) :=
      ⟨true, false, fun m _ h => by simp_all⟩
    have cRR : Compat k (fun m => decide (m ∈ r.leaves)) (fun m => decide (m ∈ r.leaves)) :=
      ⟨true, false, fun m _ h => by simp_all⟩
    have cLR : Compat k (fun m => decide (m ∈ l.leaves)) (fun m => decide (m ∈ r.leaves)) :=
      ⟨true, true, fun m _ h => by
        simp only [decide_eq_true_eq] at h
        exact hlr m h.1 h.2⟩
    have cLl : ∀ p ∈ l.splits, Compat k p.1 (fun m => decide (m ∈ l.leaves)) := fun p hp =>
      ⟨true, false, fun m _ h => by
        have := splits_below l p hp m h.1
        simp_all⟩
    have cRr : ∀ p ∈ r.splits, Compat k p.1 (fun m => decide (m ∈ r.leaves)) := fun p hp =>
      ⟨true, false, fun m _ h => by
        have := splits_below r p hp m h.1
        simp_all⟩
    have cLr : ∀ p ∈ r.splits, Compat k p.1 (fun m => decide (m ∈ l.leaves)) := fun p hp =>
      ⟨true, true, fun m _ h => by
        have h1 := splits_below r p hp m h.1
        have h2 : m ∈ l.leaves := by simpa using h.2
        exact hlr m h2 h1⟩
    have cRl : ∀ p ∈ l.splits, Compat k p.1 (fun m => decide (m ∈ r.leaves)) := fun p hp =>
      ⟨true, true, fun m _ h => by
        have h1 := splits_below l p hp m h.1
        have h2 : m ∈ r.leaves := by simpa using h.2
        exact hlr m h1 h2⟩
    have clr : ∀ p ∈ l.splits, ∀ q ∈ r.splits, Compat k p.1 q.1 := fun p hp q hq =>
      ⟨true, true, fun m _ h => hlr m (splits_below l p hp m h.1) (splits_below r q hq m h.2)⟩
    intro p hp q hq
    simp only [PT.splits, List.mem_cons, List.mem_append] at hp hq
    rcases hp with rfl | rfl | hp | hp <;> rcases hq with rfl | rfl | hq | hq
    · exact cLL
    · exact cLR
    · exact compat_symm k _ _ (cLl q hq)
    · exact compat_symm k _ _ (cLr q hq)
    · exact compat_symm k _ _ cLR
    · exact cRR
    · exact compat_symm k _ _ (cRl q hq)
    · exact compat_symm k _ _ (cRr q hq)
    · exact cLl p hp
    · exact cRl p hp
    · exact ihl hnd'.1 p hp q hq
    · exact clr p hp q hq
    · exact cLr p hp
    · exact cRr p hp
    · exact compat_symm k _ _ (clr q hq p hp)
    · exact ihr hnd'.2.1 p hp q hq

theorem splits_pos (t : PT) (h : t.Pos) : ∀ p ∈ t.splits, 0 < p.2 := by
  induction t with
  | leaf i => intro p hp; simp [PT.splits] at hp
  | node l wl r wr ihl ihr =>
    obtain ⟨h1, h2, h3, h4⟩ := h
    intro p hp
    simp only [PT.splits, List.mem_cons, List.mem_append] at hp
    rcases hp with rfl | rfl | hp | hp
    · exact h1
    · exact h2
    · exact ihl h3 p hp
    · exact ihr h4 p hp

/-- **C09, Neighbor-Joining recovers the path lengths of the generating tree (exact arithmetic)** -/
theorem C09_nj_tree (t : PT) (n : Nat) (hn : 1 ≤ n) (hperm : t.leaves.Perm (List.range n)) (hpos : t.Pos)
    (M : List (List ℚ)) (hM : Rep n M t.pd) :
    ∀ i < n, ∀ j < n, i ≠ j → ∃ v, (((i, j), v) ∈ (decode n (neighbor M n).rows).dists ∨
      ((j, i), v) ∈ (decode n (neighbor M n).rows).dists) ∧ v = t.pd i j := by
  have hnd : t.leaves.Nodup := hperm.nodup_iff.mpr List.nodup_range
  have hmem : ∀ m < n, m ∈ t.leaves := fun m hm => hperm.mem_iff.mpr (by simpa using hm)
  have hS : System n t.splits := ⟨splits_pos t hpos, splits_compat n t hnd⟩
  have hR : Rep n M (dist t.splits) :=
    ⟨hM.rows, hM.cols, fun i hi j hj => by rw [hM.val i hi j hj, dist_splits_eq_pd t hnd i j (hmem i hi) (hmem j hj)]⟩
  intro i hi j hj hij
  obtain ⟨v, hv, hv2⟩ := (C09_nj_path_sums n hn M t.splits hS hR).2 i hi j hj hij
  exact ⟨v, hv, by rw [hv2, dist_splits_eq_pd t hnd i j (hmem i hi) (hmem j hj)]⟩

/-! the hypotheses of `C09_nj_tree` are satisfiable: the quartet ((0:1,1:2):2,(2:3,3:4):3) and its path lengths -/

def njExT : PT := .node (.node (.leaf 0) 1 (.leaf 1) 2) 2 (.node (.leaf 2) 3 (.leaf 3) 4) 3

example : njExT.leaves.Perm (List.range 4) ∧ njExT.Pos ∧ Rep 4 njExM njExT.pd := by
  refine ⟨by decide, by simp [njExT, PT.Pos], ⟨rfl, ?_, ?_⟩⟩
  · intro i hi
    have : i = 0 ∨ i = 1 ∨ i = 2 ∨ i = 3 := by omega
    rcases this with rfl | rfl | rfl | rfl <;> rfl
  · intro i hi j hj
    have hi' : i = 0 ∨ i = 1 ∨ i = 2 ∨ i = 3 := by omega
    have hj' : j = 0 ∨ j = 1 ∨ j = 2 ∨ j = 3 := by omega
    rcases hi' with rfl | rfl | rfl | rfl <;> rcases hj' with rfl | rfl | rfl | rfl <;>
      simp [mget, njExM, njExT, PT.pd, PT.depth, PT.leaves] <;> norm_num

end Verif.TreeBuild
