import Verif.Lemmas.Cluster
set_option linter.unusedSectionVars false
set_option linter.unusedSimpArgs false
/-!
# C05 — flat clustering returns a partition; C10 — raising the threshold only merges

Law-free part (any score carrier, any linkage, any pick rule, ordered or unordered scan):
the result is a partition of the items in both output orientations, the run at a lower
threshold is refined by … the run at a higher one (C10), and the result is terminal for the
step function.  The order-dependent clauses (stop condition in terms of all pairs, single
linkage = components, complete linkage diameter) are in `C05Order.lean`.
-/
namespace Verif.Cluster
open Verif.Align ScoreOps
variable {S : Type} [ScoreOps S]

def items (cs : St) : List Nat := cs.flatMap (·.2)

theorem items_init (n : Nat) : items (init n) = List.range n := by
  simp only [items, init, List.flatMap_map]
  induction n with
  | zero => simp
  | succ n ih => simp [List.range_succ, List.flatMap_append, ih]

theorem items_perm {cs cs' : St} (h : cs.Perm cs') : (items cs).Perm (items cs') :=
  List.Perm.flatMap_right _ h

theorem items_mergeAt (cs : St) (p q : Nat) (hp : p < cs.length) (hq : q < cs.length) (hne : p ≠ q) :
    (items (mergeAt cs p q)).Perm (items cs) := by
  obtain ⟨rest, h1, h2, _⟩ := mergeAt_perm cs p q hp hq hne
  have e : items ((cs[p].1, cs[p].2 ++ cs[q].2) :: rest) = items (cs[p] :: cs[q] :: rest) := by
    simp [items, List.flatMap_cons]
  exact (items_perm h2).trans (e ▸ items_perm h1)

theorem items_next (cfg : Cfg) (M : Nat → Nat → S) (cs cs' : St) (m : S)
    (h : next cfg M cs = some (m, cs')) : (items cs').Perm (items cs) := by
  obtain ⟨p, q, hp, hq, hne, rfl, _, _⟩ := next_spec cfg M cs m cs' h
  exact items_mergeAt cs p q hp hq hne

theorem items_run (cfg : Cfg) (M : Nat → Nat → S) (t : S) (n : Nat) (cs : St) :
    (items (run cfg M t n cs)).Perm (items cs) := by
  induction n generalizing cs with
  | zero => exact List.Perm.refl _
  | succ n ih =>
    simp only [run]
    split
    · exact List.Perm.refl _
    · rename_i m cs' h
      split
      · exact (ih cs').trans (items_next cfg M cs cs' m h)
      · exact List.Perm.refl _

/-- **C05, partition**: every item is in exactly one returned cluster – for every linkage,
pick rule, threshold and matrix (no law about the numbers is used). -/
theorem C05_partition (cfg : Cfg) (M : Nat → Nat → S) (t : S) (n : Nat) :
    (items (flatCluster cfg M t n)).Perm (List.range n) := by
  unfold flatCluster
  have := items_run cfg M t n (init n)
  rwa [items_init] at this

/-- … and in the reverted orientation (`revert=True`: item ↦ label): each item gets exactly
one label, namely key + 1 ≥ 1 of its cluster. -/
theorem C05_partition_revert (cfg : Cfg) (M : Nat → Nat → S) (t : S) (n : Nat) :
    ((revert (flatCluster cfg M t n)).map (·.1)).Perm (List.range n) ∧
    ∀ x ∈ revert (flatCluster cfg M t n), 1 ≤ x.2 ∧
      ∃ c ∈ flatCluster cfg M t n, x.1 ∈ c.2 ∧ x.2 = c.1 + 1 := by
  constructor
  · have : (revert (flatCluster cfg M t n)).map (·.1) = items (flatCluster cfg M t n) := by
      simp [revert, items, List.map_flatMap, List.map_map, Function.comp_def]
    rw [this]
    exact C05_partition cfg M t n
  · intro x hx
    simp only [revert, List.mem_flatMap, List.mem_map] at hx
    obtain ⟨c, hc, i, hi, rfl⟩ := hx
    exact ⟨by simp, c, hc, hi, rfl⟩

/-! ### C10: refinement -/

/-- every block of `cs` is contained in a block of `cs'` -/
def Refines (cs cs' : St) : Prop := ∀ c ∈ cs, ∃ c' ∈ cs', ∀ x ∈ c.2, x ∈ c'.2

theorem Refines.refl (cs : St) : Refines cs cs := fun c hc => ⟨c, hc, fun _ h => h⟩

theorem Refines.trans {a b c : St} (h1 : Refines a b) (h2 : Refines b c) : Refines a c := by
  intro x hx
  obtain ⟨y, hy, hxy⟩ := h1 x hx
  obtain ⟨z, hz, hyz⟩ := h2 y hy
  exact ⟨z, hz, fun i hi => hyz i (hxy i hi)⟩

theorem refines_mergeAt (cs : St) (p q : Nat) (hp : p < cs.length) (hq : q < cs.length) (hne : p ≠ q) :
    Refines cs (mergeAt cs p q) := by
  obtain ⟨rest, h1, h2, _⟩ := mergeAt_perm cs p q hp hq hne
  intro c hc
  have hc' := h1.symm.mem_iff.mp hc
  simp only [List.mem_cons] at hc'
  rcases hc' with rfl | rfl | hr
  · exact ⟨_, h2.symm.mem_iff.mp (List.mem_cons_self), fun x hx => List.mem_append_left _ hx⟩
  · exact ⟨_, h2.symm.mem_iff.mp (List.mem_cons_self), fun x hx => List.mem_append_right _ hx⟩
  · exact ⟨c, h2.symm.mem_iff.mp (List.mem_cons_of_mem _ hr), fun _ h => h⟩

theorem refines_next (cfg : Cfg) (M : Nat → Nat → S) (cs cs' : St) (m : S)
    (h : next cfg M cs = some (m, cs')) : Refines cs cs' := by
  obtain ⟨p, q, hp, hq, hne, rfl, _, _⟩ := next_spec cfg M cs m cs' h
  exact refines_mergeAt cs p q hp hq hne

theorem refines_run (cfg : Cfg) (M : Nat → Nat → S) (t : S) (n : Nat) (cs : St) :
    Refines cs (run cfg M t n cs) := by
  induction n generalizing cs with
  | zero => exact Refines.refl _
  | succ n ih =>
    simp only [run]
    split
    · exact Refines.refl _
    · rename_i m cs' h
      split
      · exact (refines_next cfg M cs cs' m h).trans (ih cs')
      · exact Refines.refl _

/-- **C10**: the run at `t₁` is refined by … i.e. every cluster at `t₁` is contained in one
cluster at `t₂`, whenever every value accepted at `t₁` is accepted at `t₂` (that is what
`t₁ ≤ t₂` means for the comparison the code performs).  Holds for every linkage – nothing
about the linkage function, not even reducibility, is used: the merge sequence does not
depend on the threshold. -/
theorem C10_refines (cfg : Cfg) (M : Nat → Nat → S) (t1 t2 : S)
    (hle : ∀ m, le m t1 = true → le m t2 = true) (n : Nat) (cs : St) :
    Refines (run cfg M t1 n cs) (run cfg M t2 n cs) := by
  induction n generalizing cs with
  | zero => exact Refines.refl _
  | succ n ih =>
    simp only [run]
    split
    · exact Refines.refl _
    · rename_i m cs' h
      by_cases h1 : le m t1 = true
      · simp only [h1, hle m h1, if_true]
        exact ih cs'
      · have h1' : le m t1 = false := by simpa using h1
        simp only [h1', Bool.false_eq_true, if_false]
        split
        · exact (refines_next cfg M cs cs' m h).trans (refines_run cfg M t2 n cs')
        · exact Refines.refl _

theorem C10_flatCluster (cfg : Cfg) (M : Nat → Nat → S) (t1 t2 : S)
    (hle : ∀ m, le m t1 = true → le m t2 = true) (n : Nat) :
    Refines (flatCluster cfg M t1 n) (flatCluster cfg M t2 n) :=
  C10_refines cfg M t1 t2 hle n (init n)

/-- the merge sequence at the lower threshold is a prefix of the one at the higher -/
theorem C10_trace_prefix (cfg : Cfg) (M : Nat → Nat → S) (t1 t2 : S)
    (hle : ∀ m, le m t1 = true → le m t2 = true) (n : Nat) (cs : St) :
    trace cfg M t1 n cs <+: trace cfg M t2 n cs := by
  induction n generalizing cs with
  | zero => exact List.prefix_refl _
  | succ n ih =>
    simp only [trace]
    split
    · exact List.prefix_refl _
    · rename_i m cs' h
      by_cases h1 : le m t1 = true
      · simp only [h1, hle m h1, if_true]
        exact (List.prefix_cons_inj _).mpr (ih cs')
      · have h1' : le m t1 = false := by simpa using h1
        simp only [h1', Bool.false_eq_true, if_false]
        split
        · exact ⟨trace cfg M t2 n cs', by simp⟩
        · exact List.prefix_refl _

/-- **C10 over an observed trace**: if every recorded step is a merge of two entries, every
recorded state is refined by … i.e. contained cluster-wise in the last one.  (The harness checks
separately that the trace recorded at `t₁` is a prefix of the one recorded at `t₂`.) -/
theorem C10_of_observed (tr : List St) (h : chainOkb tr = true) :
    ∀ k (hk : k < tr.length), ∀ l (hl : l < tr.length), k ≤ l → Refines tr[k] tr[l] := by
  induction tr with
  | nil => intro k hk; simp at hk
  | cons a rest ih =>
    cases rest with
    | nil =>
      intro k hk l hl _
      simp at hk hl; subst hk hl
      exact Refines.refl _
    | cons b rest =>
      simp only [chainOkb, Bool.and_eq_true] at h
      obtain ⟨hm, hc⟩ := h
      have hab : Refines a b := by
        simp only [isMergeb, List.any_eq_true, List.mem_range, Bool.and_eq_true, bne_iff_ne, ne_eq,
          beq_iff_eq] at hm
        obtain ⟨p, hp, q, hq, hne, rfl⟩ := hm
        exact refines_mergeAt a p q hp hq hne
      intro k hk l hl hkl
      cases k with
      | zero =>
        cases l with
        | zero => exact Refines.refl _
        | succ l =>
          simp only [List.length_cons] at hl
          exact hab.trans (ih hc 0 (by simp) l (by simp; omega) (Nat.zero_le _))
      | succ k =>
        cases l with
        | zero => omega
        | succ l =>
          simp only [List.length_cons] at hk hl
          exact ih hc k (by simp; omega) l (by simp; omega) (by omega)

/-! ### Terminal state -/

/-- no further merge is offered at a value `<= t` -/
def Terminal (cfg : Cfg) (M : Nat → Nat → S) (t : S) (cs : St) : Prop :=
  match next cfg M cs with
  | none => True
  | some (m, _) => le m t = false

theorem next_length (cfg : Cfg) (M : Nat → Nat → S) (cs cs' : St) (m : S)
    (h : next cfg M cs = some (m, cs')) : cs'.length + 1 = cs.length := by
  obtain ⟨p, q, hp, hq, hne, rfl, _, _⟩ := next_spec cfg M cs m cs' h
  exact (mergeAt_perm cs p q hp hq hne).choose_spec.2.2

theorem run_terminal (cfg : Cfg) (M : Nat → Nat → S) (t : S) (n : Nat) (cs : St) (hn : cs.length ≤ n + 1) :
    Terminal cfg M t (run cfg M t n cs) := by
  induction n generalizing cs with
  | zero =>
    simp only [run, Terminal]
    have : next cfg M cs = none := by simp [next, hn]
    rw [this]; trivial
  | succ n ih =>
    simp only [run]
    split
    · rename_i h; simp only [Terminal, h]
    · rename_i m cs' h
      split
      · exact ih cs' (by have := next_length cfg M cs cs' m h; omega)
      · rename_i hm; simp only [Terminal, h]; simpa using hm

/-- **C05, stop**: the returned state is terminal – the clusterer does not stop early. -/
theorem C05_terminal (cfg : Cfg) (M : Nat → Nat → S) (t : S) (n : Nat) :
    Terminal cfg M t (flatCluster cfg M t n) := by
  unfold flatCluster
  exact run_terminal cfg M t n (init n) (by simp [init])

end Verif.Cluster
