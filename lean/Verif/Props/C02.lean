import Verif.Lemmas.Rescore
import Verif.Props.C01
set_option linter.unusedSectionVars false
/-!
# C02 — the reported alignment score is the score of the returned alignment

`rescore` reads the returned columns left to right and applies the scoring scheme's step
functions; it never looks at the DP matrices.  The theorems hold for every member of the
kernel family (global / overlap / local × primary / secondary × `_calign`/`_talign`/`_malign`
flavour × all tie rules) and every score carrier — no law about `+`, `*`, `≤` is used, so
they hold literally for IEEE doubles.  dialign is excluded by the property itself.
-/
namespace Verif.Align
open ScoreOps
variable {S : Type} [ScoreOps S] [Inhabited S]

theorem chooseGlobal_ok (cfg : Cfg) (a m b : S) :
    chooseGlobal cfg a m b = (a, 3) ∨ chooseGlobal cfg a m b = (m, 1) ∨ chooseGlobal cfg a m b = (b, 2) := by
  unfold chooseGlobal
  repeat' split
  all_goals simp

theorem chooseLocal_ok (cfg : Cfg) (a m b : S) :
    chooseLocal cfg a m b = (a, 3) ∨ chooseLocal cfg a m b = (m, 1) ∨ chooseLocal cfg a m b = (b, 2) ∨
      chooseLocal cfg a m b = (zero, 0) := by
  unfold chooseLocal
  repeat' split
  all_goals simp

theorem kernel_chooseOkG (cfg : Cfg) (inp : Input S) (h : cfg.mode ≠ .local) :
    ChooseOkG (kernelOf cfg inp) := by
  intro a m b
  simp only [kernelOf, h, if_false]
  exact chooseGlobal_ok cfg a m b

theorem kernel_chooseOkL (cfg : Cfg) (inp : Input S) (h : cfg.mode = .local) :
    ChooseOkL (kernelOf cfg inp) := by
  intro a m b
  simp only [kernelOf, h, if_true]
  exact chooseLocal_ok cfg a m b

theorem fillOf_aff (cfg : Cfg) (inp : Input S) (h : cfg.mode ≠ .dialign) :
    fillOf cfg inp = (kernelOf cfg inp).toFill := by
  simp [fillOf, h]

/-- The similarity the scheme assigns to a list of returned columns (global / overlap). -/
def rescoreCols (cfg : Cfg) (inp : Input S) (cols : List (Col Nat)) : S :=
  (rescore (kernelOf cfg inp) ⟨0, 0, (kernelOf cfg inp).corner⟩ (movesOf cols)).cur.1

/-- … and to the aligned part of a local alignment whose prefixes have lengths `j0`, `i0`. -/
def rescoreLocal (cfg : Cfg) (inp : Input S) (i0 j0 : Nat) (cols : List (Col Nat)) : S :=
  (rescore (kernelOf cfg inp) ⟨i0, j0, (zero, 0)⟩ (movesOf cols)).cur.1

/-- **C02, global and overlap mode.** -/
theorem C02_score (cfg : Cfg) (inp : Input S) (h : cfg.mode = .global ∨ cfg.mode = .overlap)
    (ha : inp.a ≠ []) (hb : inp.b ≠ []) :
    ∃ cols sim, run cfg inp = .glob cols sim ∧ sim = rescoreCols cfg inp cols := by
  have hl : cfg.mode ≠ .local := by rcases h with h | h <;> simp [h]
  have hd : cfg.mode ≠ .dialign := by rcases h with h | h <;> simp [h]
  have hM : inp.M ≠ 0 := by simpa [Input.M] using ha
  have hN : inp.N ≠ 0 := by simpa [Input.N] using hb
  have hrow : ∀ j c, ((kernelOf cfg inp).row0 j c).2 ≠ 3 ∧ ((kernelOf cfg inp).row0 j c).2 ≠ 1 := by
    intro j c
    have := fill_row0_move cfg inp hl j c
    rw [fillOf_aff cfg inp hd] at this
    simp only [AffKernel.toFill] at this
    omega
  have hcol : ∀ i c, ((kernelOf cfg inp).col0 i c).2 = 3 := by
    intro i c
    have := fill_col0_move cfg inp hl i c
    rw [fillOf_aff cfg inp hd] at this
    simpa only [AffKernel.toFill] using this
  obtain ⟨cols, h1, h2⟩ :=
    rescore_tbGlobal (kernelOf cfg inp) (kernel_chooseOkG cfg inp hl) hrow hcol inp.a inp.b inp.N inp.M
      (Nat.le_refl _) (Nat.le_refl _)
      (fun i j => (getCell (rowsRev (fillOf cfg inp) inp.M inp.N) inp.N i j).2)
      (by intro i j hi _; simp only [getCell_eq_T _ _ _ _ _ hi, fillOf_aff cfg inp hd])
      inp.N inp.M [] (Nat.le_refl _) (Nat.le_refl _)
  simp only [List.append_nil] at h1
  refine ⟨cols, (getCell (rowsRev (fillOf cfg inp) inp.M inp.N) inp.N inp.N inp.M).1, ?_, ?_⟩
  · simp only [run, hM, hN, hl, false_or, if_false, h1]
  · simp only [rescoreCols, h2, getCell_eq_T _ _ _ _ _ (Nat.le_refl _), fillOf_aff cfg inp hd]

/-- **C02, local mode.** -/
theorem C02_score_local (cfg : Cfg) (inp : Input S) (h : cfg.mode = .local)
    (i0 j0 k l : Nat) (cols : List (Col Nat)) (sim : S)
    (hr : run cfg inp = .loc i0 j0 k l cols sim) :
    sim = rescoreLocal cfg inp i0 j0 cols := by
  have hd : cfg.mode ≠ .dialign := by simp [h]
  simp only [run, h] at hr
  split at hr
  · cases hr
  · simp only [if_true] at hr
    generalize bestScan cfg 1 (List.drop 1 (rowsRev (fillOf cfg inp) inp.M inp.N).reverse) (zero, 0, 0) = bs at hr
    obtain ⟨s, k', l'⟩ := bs
    simp only at hr
    split at hr
    · cases hr
    · rename_i hkl
      have hk : k' ≤ inp.N := by omega
      have hl : l' ≤ inp.M := by omega
      have hc := fill_local_corner cfg inp h
      have hr0 := fill_local_row0 cfg inp h
      have hc0 := fill_local_col0 cfg inp h
      rw [fillOf_aff cfg inp hd] at hc hr0 hc0
      obtain ⟨i1, j1, cs, h1, h2⟩ :=
        rescore_tbLocal (kernelOf cfg inp) (kernel_chooseOkL cfg inp h) hc hr0 hc0 inp.a inp.b inp.N inp.M
          (Nat.le_refl _) (Nat.le_refl _)
          (fun i j => (getCell (rowsRev (fillOf cfg inp) inp.M inp.N) inp.N i j).2)
          (by intro i j hi _; simp only [getCell_eq_T _ _ _ _ _ hi, fillOf_aff cfg inp hd])
          k' l' [] hk hl
      simp only [List.append_nil] at h1
      rw [h1] at hr
      cases hr
      simp only [rescoreLocal, h2, getCell_eq_T _ _ _ _ _ hk, fillOf_aff cfg inp hd]

/-- **C02, normalised distance**: it is `1 - 2·sim/(self A + self B)` of the *same* similarity
that is returned with (and, by the theorems above, re-scored from) the alignment. -/
theorem C02_distance (cfg : Cfg) (inp : Input S) (s d : S) (h : runDist cfg inp = some (s, d)) :
    (run cfg inp).sim? = some s ∧
      d = sub one (div (mul (add one one) s) (add (selfScore cfg inp inp.a) (selfScore cfg inp inp.b))) := by
  unfold runDist at h
  cases hs : (run cfg inp).sim? with
  | none => simp [hs] at h
  | some s' =>
    simp only [hs, Option.map_some, Option.some.injEq, Prod.mk.injEq] at h
    obtain ⟨rfl, rfl⟩ := h
    exact ⟨rfl, rfl⟩

/-! ### Non-vacuity: a concrete run over `Int` (scores ×1) meets the hypotheses. -/
def exInp : Input Int where
  a := [0, 1, 0]
  b := [1, 0]
  gopA := [-2, -2, -2]
  gopB := [-2, -2]
  proA := [65, 88, 65]
  proB := [88, 65]
  scale := 1
  factor := 0
  scorer := fun x y => if x = y then 3 else -1
  r := []
def exCfg : Cfg := ⟨.global, false, 0, true, true, true, true, true, false⟩

/-- the hypotheses of `C02_score` are met by a concrete non-trivial input -/
example : ∃ cols sim, run exCfg exInp = .glob cols sim ∧ sim = rescoreCols exCfg exInp cols :=
  C02_score exCfg exInp (Or.inl rfl) (by decide) (by decide)
example : rescoreCols exCfg exInp [(some 0, none), (some 1, some 1), (some 0, some 0)] = 4 := by decide

end Verif.Align
