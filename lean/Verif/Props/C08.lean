import Verif.Props.C07
set_option linter.unusedSimpArgs false
set_option linter.unusedVariables false
/-!
# C08 — the weighted gain–loss scenario has minimum weight

Specification: a *labeling* gives every node of the tree a state 0/1; its cost is the sum, over
the edges (and the virtual edge from "absent" above the root), of the gain weight for 0→1 and the
loss weight for 1→0.  A labeling is *consistent* when it agrees with every known leaf.

Theorem `C08_optimal`: when the gains-per-lineage limit cannot bind (it is at least the number of
nodes below the root of the analysed subtree) the scenario selected by the model weighs no more than
**any** consistent labeling costs – for every tree (binary or multifurcating, no assumption on
names), every pattern with missing leaves, every weight pair and `push_gains`.  The bottom-up
invariant is `cands_opt`: for every labeling and every state `σ` of the parent, some candidate kept
at the node is at most as expensive as the labeling, counting the edge from the parent.

`C08_achievable` (with any limit): the returned scenario induces a consistent labeling that costs
no more than the scenario weighs, so the weight is never below the minimum.
-/
namespace Verif.GL

/-! ### the specification -/

/-- cost of an edge from a node in state `a` to a child in state `b` -/
def edgeCost (w : Nat × Nat) (a b : Int) : Nat :=
  if a = b then 0 else if b = 1 then w.1 else w.2

mutual
/-- cost of the edges inside the subtree `t` under the labeling `L` -/
def labCost (w : Nat × Nat) (L : Nat → Int) : GTree → Nat
  | .leaf _ => 0
  | .node n cs => labCostL w L (L n) cs
def labCostL (w : Nat × Nat) (L : Nat → Int) (σ : Int) : List GTree → Nat
  | [] => 0
  | t :: ts => (edgeCost w σ (L t.name) + labCost w L t) + labCostL w L σ ts
end

/-- cost of the subtree including the edge from a parent in state `σ` -/
def costFrom (w : Nat × Nat) (L : Nat → Int) (σ : Int) (t : GTree) : Nat :=
  edgeCost w σ (L t.name) + labCost w L t

def Labeling (L : Nat → Int) : Prop := ∀ k, L k = 0 ∨ L k = 1

def Consistent (pat L : Nat → Int) (t : GTree) : Prop :=
  ∀ n ∈ leafNames t, pat n ≠ -1 → L n = pat n

/-- what a candidate in state `s` costs on the edge from a parent in state `σ` (an undetermined
candidate takes the parent's state) -/
def up (w : Nat × Nat) (σ s : Int) : Nat := if s = -1 then 0 else edgeCost w σ s

def StateOk (s : Int) : Prop := s = 1 ∨ s = 0 ∨ s = -1

def sumW (w : Nat × Nat) (combo : List Cand) : Nat := (combo.map fun c => weightOf w c.2).sum
def upSum (w : Nat × Nat) (τ : Int) (combo : List Cand) : Nat := (combo.map fun c => up w τ c.1).sum
def lenSum (combo : List Cand) : Nat := (combo.map fun c => c.2.length).sum

/-! ### weights of stories -/

theorem weightOf_nil (w : Nat × Nat) : weightOf w [] = 0 := by simp [weightOf, count]

theorem weightOf_append (w : Nat × Nat) (a b : Story) :
    weightOf w (a ++ b) = weightOf w a + weightOf w b := by
  simp only [weightOf, count, List.map_append, List.filter_append, List.length_append, Nat.add_mul]
  omega

theorem weightOf_cons (w : Nat × Nat) (k : Nat) (e : Int) (s : Story) :
    weightOf w ((k, e) :: s) = ((if e = 1 then w.1 else 0) + (if e = 0 then w.2 else 0)) + weightOf w s := by
  have := weightOf_append w [(k, e)] s
  simp only [List.singleton_append] at this
  rw [this]
  congr 1
  simp only [weightOf, List.map_cons, List.map_nil, count_cons]
  by_cases h1 : e = 1
  · subst h1; simp [count]
  · by_cases h0 : e = 0
    · subst h0; simp [count]
    · simp [h1, h0, count]

theorem weightOf_flatMap (w : Nat × Nat) (combo : List Cand) :
    weightOf w (combo.flatMap (·.2)) = sumW w combo := by
  induction combo with
  | nil => simp [weightOf_nil, sumW]
  | cons c cs ih =>
    simp only [List.flatMap_cons, weightOf_append, ih, sumW, List.map_cons, List.sum_cons]

theorem weightOf_const (w : Nat × Nat) (v : Int) (l : List (Nat × Int)) :
    weightOf w (l.map fun p => (p.1, v)) = l.length * ((if v = 1 then w.1 else 0) + (if v = 0 then w.2 else 0)) := by
  induction l with
  | nil => simp [weightOf_nil]
  | cons x xs ih =>
    simp only [List.map_cons, weightOf_cons, ih, List.length_cons, Nat.add_mul, Nat.one_mul]
    omega

theorem filter_zip_len (v : Int) : ∀ (names : List Nat) (states : List Int), names.length = states.length →
    ((names.zip states).filter (·.2 == v)).length = count v states
  | [], [], _ => by simp [count]
  | [], _ :: _, h => by simp at h
  | _ :: _, [], h => by simp at h
  | n :: ns, s :: ss, h => by
    have ih := filter_zip_len v ns ss (by simpa using h)
    rw [count_cons]
    simp only [List.zip_cons_cons, List.filter_cons, beq_iff_eq]
    by_cases hs : s = v
    · simp only [hs, if_true, List.length_cons]; rw [← hs] at ih ⊢; omega
    · simp only [hs, if_false]; omega

theorem story_count_le (v : Int) (s : Story) : count v (s.map (·.2)) ≤ s.length := by
  have := count_le v (s.map (·.2))
  simpa using this

/-! ### what the edges to the children cost, in terms of the children's states -/

theorem upSum_one (w : Nat × Nat) (combo : List Cand) (h : ∀ c ∈ combo, StateOk c.1) :
    upSum w 1 combo = count 0 (combo.map (·.1)) * w.2 := by
  induction combo with
  | nil => simp [upSum, count]
  | cons c cs ih =>
    have ih' := ih (fun c hc => h c (List.mem_cons_of_mem _ hc))
    simp only [upSum, List.map_cons, List.sum_cons] at ih' ⊢
    rw [ih', count_cons]
    rcases h c List.mem_cons_self with h1 | h1 | h1 <;> rw [h1] <;> simp [up, edgeCost, Nat.add_mul]

theorem upSum_zero (w : Nat × Nat) (combo : List Cand) (h : ∀ c ∈ combo, StateOk c.1) :
    upSum w 0 combo = count 1 (combo.map (·.1)) * w.1 := by
  induction combo with
  | nil => simp [upSum, count]
  | cons c cs ih =>
    have ih' := ih (fun c hc => h c (List.mem_cons_of_mem _ hc))
    simp only [upSum, List.map_cons, List.sum_cons] at ih' ⊢
    rw [ih', count_cons]
    rcases h c List.mem_cons_self with h1 | h1 | h1 <;> rw [h1] <;> simp [up, edgeCost, Nat.add_mul]

theorem count_three (l : List Int) (h : ∀ x ∈ l, StateOk x) :
    count 1 l + count 0 l + count (-1) l = l.length := by
  induction l with
  | nil => simp [count]
  | cons x xs ih =>
    have ih' := ih (fun y hy => h y (List.mem_cons_of_mem _ hy))
    rw [count_cons, count_cons, count_cons]
    simp only [List.length_cons]
    rcases h x List.mem_cons_self with h1 | h1 | h1 <;> subst h1 <;> simp <;> omega

/-! ### the combination step -/

theorem combine_state (cfg : Cfg) (names : List Nat) (combo : List Cand) :
    ∀ c ∈ combine cfg names combo, StateOk c.1 := by
  intro c hc
  unfold combine at hc
  simp only at hc
  split at hc
  · simp only [List.mem_singleton] at hc; subst hc; exact Or.inr (Or.inr rfl)
  · split at hc
    · simp only [List.mem_singleton] at hc; subst hc; exact Or.inl rfl
    · split at hc
      · simp only [List.mem_singleton] at hc; subst hc; exact Or.inr (Or.inl rfl)
      · split at hc
        · simp only [List.mem_singleton] at hc; subst hc; exact Or.inr (Or.inr rfl)
        · simp only [List.mem_cons, List.mem_singleton, List.not_mem_nil, or_false] at hc
          rcases hc with rfl | rfl
          · exact Or.inl rfl
          · exact Or.inr (Or.inl rfl)

theorem length_flatMap_story (combo : List Cand) : (combo.flatMap (·.2)).length = lenSum combo := by
  induction combo with
  | nil => simp [lenSum]
  | cons c cs ih => simp only [List.flatMap_cons, List.length_append, ih, lenSum, List.map_cons, List.sum_cons]

theorem combine_len (cfg : Cfg) (names : List Nat) (combo : List Cand) :
    ∀ c ∈ combine cfg names combo, c.2.length ≤ lenSum combo + combo.length := by
  intro c hc
  have hzip : ∀ v : Int, (((names.zip (combo.map (·.1))).filter (·.2 == v)).map fun p => (p.1, v)).length ≤ combo.length := by
    intro v
    simp only [List.length_map]
    calc _ ≤ (names.zip (combo.map (·.1))).length := List.length_filter_le _ _
      _ ≤ combo.length := by simp only [List.length_zip, List.length_map]; omega
  unfold combine at hc
  simp only at hc
  split at hc
  · simp only [List.mem_singleton] at hc; subst hc; simp only [length_flatMap_story]; omega
  · split at hc
    · simp only [List.mem_singleton] at hc; subst hc; simp only [length_flatMap_story]; omega
    · split at hc
      · simp only [List.mem_singleton] at hc; subst hc; simp only [length_flatMap_story]; omega
      · split at hc
        · simp only [List.mem_singleton] at hc; subst hc; simp only [length_flatMap_story]; omega
        · simp only [List.mem_cons, List.mem_singleton, List.not_mem_nil, or_false] at hc
          rcases hc with rfl | rfl
          · simp only [List.length_append, length_flatMap_story]
            have := hzip 0
            omega
          · simp only [List.length_append, length_flatMap_story]
            have := hzip 1
            omega

/-- **the combination step loses nothing**: if the parent is labelled `τ` and the children's
candidates cost `sumW + upSum τ` including their edges, some new candidate of the parent costs at most
that plus the edge from a grandparent in state `σ` to `τ`. -/
theorem combine_opt (cfg : Cfg) (hamf : cfg.allMissingFirst = true) (names : List Nat) (combo : List Cand)
    (hlen : names.length = combo.length) (hst : ∀ c ∈ combo, StateOk c.1) (τ σ : Int) (hτ : τ = 0 ∨ τ = 1) :
    ∃ c ∈ combine cfg names combo,
      weightOf cfg.w c.2 + up cfg.w σ c.1 ≤ edgeCost cfg.w σ τ + (sumW cfg.w combo + upSum cfg.w τ combo) := by
  have hst' : ∀ x ∈ combo.map (·.1), StateOk x := by
    intro x hx
    obtain ⟨c, hc, rfl⟩ := List.mem_map.mp hx
    exact hst c hc
  have h3 := count_three _ hst'
  have hl : (combo.map (·.1)).length = combo.length := by simp
  have hU1 := upSum_one cfg.w combo hst
  have hU0 := upSum_zero cfg.w combo hst
  have hlen' : names.length = (combo.map (·.1)).length := by simpa using hlen
  have hz1 := filter_zip_len 1 names (combo.map (·.1)) hlen'
  have hz0 := filter_zip_len 0 names (combo.map (·.1)) hlen'
  -- abbreviations
  generalize hs1 : count (1 : Int) (combo.map (·.1)) = s1 at *
  generalize hs0 : count (0 : Int) (combo.map (·.1)) = s0 at *
  generalize hsM : count (-1 : Int) (combo.map (·.1)) = sM at *
  have e11 : edgeCost cfg.w 1 1 = 0 := by simp [edgeCost]
  have e00 : edgeCost cfg.w 0 0 = 0 := by simp [edgeCost]
  have eσ1 : edgeCost cfg.w σ 1 ≤ cfg.w.1 := by unfold edgeCost; split <;> simp
  have eσ0 : edgeCost cfg.w σ 0 ≤ cfg.w.2 := by unfold edgeCost; split <;> simp
  unfold combine
  simp only [hamf, Bool.true_and, hs1, hs0, hsM, hl, beq_iff_eq]
  by_cases hM : sM = combo.length
  · -- every child undetermined
    simp only [hM, if_true]
    refine ⟨_, List.mem_singleton.mpr rfl, ?_⟩
    simp only [weightOf_flatMap, up, if_true]
    omega
  · simp only [hM, if_false]
    by_cases h1 : s1 + sM = combo.length
    · simp only [h1, if_true]
      refine ⟨_, List.mem_singleton.mpr rfl, ?_⟩
      have hs0z : s0 = 0 := by omega
      have hs1p : 1 ≤ s1 := by omega
      have hne : ¬ ((1 : Int) = -1) := by omega
      simp only [weightOf_flatMap, up, hne, if_false]
      rcases hτ with rfl | rfl
      · rw [hU0]
        have : cfg.w.1 ≤ s1 * cfg.w.1 := Nat.le_mul_of_pos_left _ hs1p
        omega
      · rw [hU1, hs0z]; omega
    · simp only [h1, if_false]
      by_cases h0 : s0 + sM = combo.length
      · simp only [h0, if_true]
        refine ⟨_, List.mem_singleton.mpr rfl, ?_⟩
        have hs1z : s1 = 0 := by omega
        have hs0p : 1 ≤ s0 := by omega
        have hne : ¬ ((0 : Int) = -1) := by omega
        simp only [weightOf_flatMap, up, hne, if_false]
        rcases hτ with rfl | rfl
        · rw [hU0, hs1z]; omega
        · rw [hU1]
          have : cfg.w.2 ≤ s0 * cfg.w.2 := Nat.le_mul_of_pos_left _ hs0p
          omega
      · simp only [h0, if_false]
        -- mixed children
        rcases hτ with rfl | rfl
        · refine ⟨_, List.mem_cons_of_mem _ (List.mem_singleton.mpr rfl), ?_⟩
          have hne : ¬ ((0 : Int) = -1) := by omega
          simp only [weightOf_append, weightOf_flatMap, weightOf_const, List.length_map, hz1, up, hne, if_false, hU0]
          simp
          omega
        · refine ⟨_, List.mem_cons_self, ?_⟩
          have hne : ¬ ((1 : Int) = -1) := by omega
          simp only [weightOf_append, weightOf_flatMap, weightOf_const, List.length_map, hz0, up, hne, if_false, hU1]
          simp
          omega

/-! ### minimum selection -/

theorem foldl_min_le : ∀ (xs : List Nat) (x : Nat), xs.foldl min x ≤ x ∧ ∀ y ∈ xs, xs.foldl min x ≤ y
  | [], x => by simp
  | y :: ys, x => by
    obtain ⟨h1, h2⟩ := foldl_min_le ys (min x y)
    simp only [List.foldl_cons]
    refine ⟨by omega, ?_⟩
    intro z hz
    rcases List.mem_cons.mp hz with rfl | hz
    · omega
    · exact h2 z hz

theorem foldl_min_mem : ∀ (xs : List Nat) (x : Nat), xs.foldl min x = x ∨ xs.foldl min x ∈ xs
  | [], x => by simp
  | y :: ys, x => by
    simp only [List.foldl_cons]
    rcases foldl_min_mem ys (min x y) with h | h
    · rw [h]
      by_cases hxy : x ≤ y
      · left; omega
      · right; have : min x y = y := by omega
        rw [this]; exact List.mem_cons_self
    · right; exact List.mem_cons_of_mem _ h

theorem minOf_spec {α : Type} (f : α → Nat) (l : List α) (x : Nat) (xs : List Nat) (h : l.map f = x :: xs) :
    (∃ b ∈ l, f b = xs.foldl min x) ∧ ∀ a ∈ l, xs.foldl min x ≤ f a := by
  constructor
  · have hm : xs.foldl min x ∈ l.map f := by
      rw [h]
      rcases foldl_min_mem xs x with h' | h'
      · rw [h']; exact List.mem_cons_self
      · exact List.mem_cons_of_mem _ h'
    obtain ⟨b, hb, hfb⟩ := List.mem_map.mp hm
    exact ⟨b, hb, hfb⟩
  · intro a ha
    have hm : f a ∈ x :: xs := h ▸ List.mem_map.mpr ⟨a, ha, rfl⟩
    obtain ⟨h1, h2⟩ := foldl_min_le xs x
    rcases List.mem_cons.mp hm with h' | h'
    · omega
    · exact h2 _ h'

theorem pick_opt (cfg : Cfg) (ok : List Cand) (st : Int) (c : Cand) (hc : c ∈ ok) (hst : c.1 = st) :
    ∃ c' ∈ pick cfg ok st, c'.1 = st ∧ weightOf cfg.w c'.2 ≤ weightOf cfg.w c.2 := by
  have hcs : c ∈ ok.filter fun c => c.1 == st := List.mem_filter.mpr ⟨hc, by simp [hst]⟩
  unfold pick
  simp only
  split
  · rename_i heq
    have : c ∈ ([] : List Cand) := by
      have := List.map_eq_nil_iff.mp heq
      rw [this] at hcs; exact hcs
    cases this
  · rename_i x xs heq
    obtain ⟨⟨b, hb, hfb⟩, hle⟩ := minOf_spec (fun c : Cand => weightOf cfg.w c.2) _ x xs heq
    refine ⟨b, List.mem_filter.mpr ⟨hb, by simp [hfb]⟩, ?_, ?_⟩
    · have := (List.mem_filter.mp hb).2
      simpa using this
    · rw [hfb]; exact hle c hcs

theorem prune_opt (cfg : Cfg) (hamf : cfg.allMissingFirst = true) (X : List Cand) (c : Cand) (hc : c ∈ X)
    (hs : StateOk c.1) (hg : c.2.length ≤ cfg.gpl) :
    ∃ c' ∈ prune cfg X, c'.1 = c.1 ∧ weightOf cfg.w c'.2 ≤ weightOf cfg.w c.2 := by
  have hok : c ∈ X.filter fun c => !(c.1 == 1 && count (1 : Int) (c.2.map (·.2)) > cfg.gpl) := by
    refine List.mem_filter.mpr ⟨hc, ?_⟩
    have := story_count_le 1 c.2
    have hle : ¬ (cfg.gpl < count (1 : Int) (c.2.map (·.2))) := by omega
    simp [hle]
  unfold prune
  simp only [hamf, if_true]
  rcases hs with h | h | h
  · obtain ⟨c', hc', h1, h2⟩ := pick_opt cfg _ 1 c hok h
    exact ⟨c', List.mem_append.mpr (Or.inl (List.mem_append.mpr (Or.inr hc'))), by rw [h1, h], h2⟩
  · obtain ⟨c', hc', h1, h2⟩ := pick_opt cfg _ 0 c hok h
    exact ⟨c', List.mem_append.mpr (Or.inl (List.mem_append.mpr (Or.inl hc'))), by rw [h1, h], h2⟩
  · obtain ⟨c', hc', h1, h2⟩ := pick_opt cfg _ (-1) c hok h
    exact ⟨c', List.mem_append.mpr (Or.inr hc'), by rw [h1, h], h2⟩

/-! ### the bottom-up invariants -/

theorem mem_product_cons {α : Type} (l : List α) (ls : List (List α)) (combo : List α) :
    combo ∈ product (l :: ls) ↔ ∃ x ∈ l, ∃ r ∈ product ls, combo = x :: r := by
  simp only [product, List.mem_flatMap, List.mem_map]
  constructor
  · rintro ⟨x, hx, r, hr, rfl⟩; exact ⟨x, hx, r, hr, rfl⟩
  · rintro ⟨x, hx, r, hr, rfl⟩; exact ⟨x, hx, r, hr, rfl⟩

theorem nodeNames_length (t : GTree) : (nodeNames t).length = (descNames t).length + 1 := by
  rw [nodeNames_eq]; simp

mutual
/-- every candidate has a state in {1, 0, -1} and at most one event per node below -/
theorem cands_basic (cfg : Cfg) (pat : Nat → Int) (hpat : ∀ n, StateOk (pat n)) :
    ∀ (t : GTree), ∀ c ∈ cands cfg pat t, StateOk c.1 ∧ c.2.length ≤ (descNames t).length
  | .leaf n, c, hc => by
    simp only [cands, List.mem_singleton] at hc
    subst hc
    exact ⟨hpat n, by simp⟩
  | .node n cs, c, hc => by
    simp only [cands] at hc
    have hc' := prune_sub cfg _ c hc
    obtain ⟨combo, hcombo, hcc⟩ := List.mem_flatMap.mp hc'
    obtain ⟨_, h2, h3⟩ := candsL_basic cfg pat hpat cs combo hcombo
    refine ⟨combine_state cfg _ combo c hcc, ?_⟩
    have := combine_len cfg _ combo c hcc
    simp only [descNames]
    omega
theorem candsL_basic (cfg : Cfg) (pat : Nat → Int) (hpat : ∀ n, StateOk (pat n)) :
    ∀ (ts : List GTree), ∀ combo ∈ product (candsL cfg pat ts),
      (∀ c ∈ combo, StateOk c.1) ∧ lenSum combo + combo.length ≤ (nodeNamesL ts).length ∧ combo.length = ts.length
  | [], combo, h => by
    simp only [candsL, product, List.mem_singleton] at h
    subst h
    simp [lenSum, nodeNamesL]
  | t :: ts, combo, h => by
    simp only [candsL] at h
    obtain ⟨x, hx, r, hr, rfl⟩ := (mem_product_cons _ _ _).mp h
    obtain ⟨h1, h2⟩ := cands_basic cfg pat hpat t x hx
    obtain ⟨g1, g2, g3⟩ := candsL_basic cfg pat hpat ts r hr
    refine ⟨?_, ?_, by simp [g3]⟩
    · intro c hc
      rcases List.mem_cons.mp hc with rfl | hc
      · exact h1
      · exact g1 c hc
    · simp only [lenSum, List.map_cons, List.sum_cons, List.length_cons, nodeNamesL, List.length_append,
        nodeNames_length] at g2 ⊢
      omega
end

theorem consistent_child_head (pat L : Nat → Int) (t : GTree) (ts : List GTree)
    (h : ∀ n ∈ leafNamesL (t :: ts), pat n ≠ -1 → L n = pat n) :
    Consistent pat L t ∧ ∀ n ∈ leafNamesL ts, pat n ≠ -1 → L n = pat n := by
  constructor
  · intro n hn; exact h n (by simp only [leafNamesL, List.mem_append]; exact Or.inl hn)
  · intro n hn; exact h n (by simp only [leafNamesL, List.mem_append]; exact Or.inr hn)

mutual
/-- **the bottom-up invariant of optimality** -/
theorem cands_opt (cfg : Cfg) (hamf : cfg.allMissingFirst = true) (pat : Nat → Int) (hpat : ∀ n, StateOk (pat n))
    (L : Nat → Int) (hL : Labeling L) :
    ∀ (t : GTree), (descNames t).length ≤ cfg.gpl → Consistent pat L t → ∀ σ : Int,
      ∃ c ∈ cands cfg pat t, weightOf cfg.w c.2 + up cfg.w σ c.1 ≤ costFrom cfg.w L σ t
  | .leaf n, _, hcons, σ => by
    refine ⟨(pat n, []), by simp [cands], ?_⟩
    simp only [weightOf_nil, costFrom, labCost, GTree.name, Nat.zero_add, Nat.add_zero]
    unfold up
    by_cases hm : pat n = -1
    · simp [hm]
    · simp only [hm, if_false]
      rw [hcons n (by simp [leafNames]) hm]
      exact Nat.le_refl _
  | .node n cs, hg, hcons, σ => by
    obtain ⟨combo, hcombo, hsum⟩ := candsL_opt cfg hamf pat hpat L hL cs (L n) (by simpa [descNames] using hg)
      (by intro k hk; exact hcons k (by simpa [leafNames] using hk))
    obtain ⟨hst, hlen, hl⟩ := candsL_basic cfg pat (fun n => hpat n) cs combo hcombo
    obtain ⟨c, hc, hle⟩ := combine_opt cfg hamf (cs.map GTree.name) combo (by simp [hl]) hst (L n) σ
      (hL n)
    have hcX : c ∈ (product (candsL cfg pat cs)).flatMap (combine cfg (cs.map GTree.name)) :=
      List.mem_flatMap.mpr ⟨combo, hcombo, hc⟩
    have hclen := combine_len cfg _ combo c hc
    obtain ⟨c', hc', hs', hw'⟩ := prune_opt cfg hamf _ c hcX (combine_state cfg _ combo c hc) (by
      simp only [descNames] at hg; omega)
    refine ⟨c', by simpa [cands] using hc', ?_⟩
    rw [hs']
    simp only [costFrom, labCost, GTree.name]
    omega
theorem candsL_opt (cfg : Cfg) (hamf : cfg.allMissingFirst = true) (pat : Nat → Int) (hpat : ∀ n, StateOk (pat n))
    (L : Nat → Int) (hL : Labeling L) :
    ∀ (ts : List GTree) (τ : Int), (nodeNamesL ts).length ≤ cfg.gpl →
      (∀ n ∈ leafNamesL ts, pat n ≠ -1 → L n = pat n) →
      ∃ combo ∈ product (candsL cfg pat ts), sumW cfg.w combo + upSum cfg.w τ combo ≤ labCostL cfg.w L τ ts
  | [], τ, _, _ => by
    exact ⟨[], by simp [candsL, product], by simp [sumW, upSum, labCostL]⟩
  | t :: ts, τ, hg, hcons => by
    obtain ⟨hc1, hc2⟩ := consistent_child_head pat L t ts hcons
    simp only [nodeNamesL, List.length_append, nodeNames_length] at hg
    obtain ⟨x, hx, hxle⟩ := cands_opt cfg hamf pat hpat L hL t (by omega) hc1 τ
    obtain ⟨r, hr, hrle⟩ := candsL_opt cfg hamf pat hpat L hL ts τ (by omega) hc2
    refine ⟨x :: r, ?_, ?_⟩
    · simp only [candsL]
      exact (mem_product_cons _ _ _).mpr ⟨x, hx, r, hr, rfl⟩
    · simp only [sumW, upSum, List.map_cons, List.sum_cons, labCostL, costFrom] at hxle hrle ⊢
      omega
end

/-! ### the root -/

theorem rootStory_weight (cfg : Cfg) (name : Nat) (c : Cand) (hs : StateOk c.1) :
    weightOf cfg.w (if c.1 == 1 then c.2 ++ [(name, (1 : Int))] else c.2) = weightOf cfg.w c.2 + up cfg.w 0 c.1 := by
  rcases hs with h | h | h
  · simp [h, weightOf_append, weightOf_cons, weightOf_nil, up, edgeCost]
  · simp [h, up, edgeCost]
  · simp [h, up]

theorem minWeight_le (cfg : Cfg) (ss : List Story) (s : Story) (hs : s ∈ ss) :
    ∀ s' ∈ minWeightStories cfg ss, weightOf cfg.w s' ≤ weightOf cfg.w s := by
  intro s' hs'
  unfold minWeightStories at hs'
  split at hs'
  · cases hs'
  · rename_i x xs heq
    obtain ⟨_, hle⟩ := minOf_spec (weightOf cfg.w) ss x xs heq
    have := (List.mem_filter.mp hs').2
    simp only [beq_iff_eq] at this
    rw [this]; exact hle s hs

theorem minWeight_nonempty (cfg : Cfg) (ss : List Story) (s : Story) (hs : s ∈ ss) :
    minWeightStories cfg ss ≠ [] := by
  unfold minWeightStories
  split
  · rename_i heq
    have := List.map_eq_nil_iff.mp heq
    rw [this] at hs; cases hs
  · rename_i x xs heq
    obtain ⟨⟨b, hb, hfb⟩, _⟩ := minOf_spec (weightOf cfg.w) ss x xs heq
    intro hnil
    have : b ∈ ss.filter fun s => weightOf cfg.w s == xs.foldl min x := List.mem_filter.mpr ⟨hb, by simp [hfb]⟩
    simp only at hnil
    rw [hnil] at this; cases this

/-- **C08 (optimality)**: with a limit that cannot bind, whatever scenario the selection returns
for the analysed subtree weighs at most what any consistent labeling costs. -/
theorem C08_optimal (cfg : Cfg) (hamf : cfg.allMissingFirst = true) (pat : Nat → Int) (hpat : ∀ n, StateOk (pat n))
    (t : GTree) (hg : (descNames t).length ≤ cfg.gpl) (story : Story)
    (h : pickFinal cfg (minWeightStories cfg (rootCands cfg pat t)) = some story)
    (L : Nat → Int) (hL : Labeling L) (hcons : Consistent pat L t) :
    weightOf cfg.w story ≤ costFrom cfg.w L 0 t := by
  obtain ⟨c, hc, hle⟩ := cands_opt cfg hamf pat hpat L hL t hg hcons 0
  have hs := (cands_basic cfg pat hpat t c hc).1
  have hmem : (if c.1 == 1 then c.2 ++ [(t.name, (1 : Int))] else c.2) ∈ rootCands cfg pat t :=
    List.mem_map.mpr ⟨c, hc, rfl⟩
  have := minWeight_le cfg _ _ hmem story (pickFinal_mem cfg _ story h)
  rw [rootStory_weight cfg t.name c hs] at this
  omega

/-- … and a scenario is returned whenever a consistent labeling exists -/
theorem C08_returns (cfg : Cfg) (hamf : cfg.allMissingFirst = true) (pat : Nat → Int) (hpat : ∀ n, StateOk (pat n))
    (t : GTree) (hg : (descNames t).length ≤ cfg.gpl)
    (L : Nat → Int) (hL : Labeling L) (hcons : Consistent pat L t) :
    ∃ story, pickFinal cfg (minWeightStories cfg (rootCands cfg pat t)) = some story := by
  obtain ⟨c, hc, _⟩ := cands_opt cfg hamf pat hpat L hL t hg hcons 0
  have hmem : (if c.1 == 1 then c.2 ++ [(t.name, (1 : Int))] else c.2) ∈ rootCands cfg pat t :=
    List.mem_map.mpr ⟨c, hc, rfl⟩
  have hne := minWeight_nonempty cfg _ _ hmem
  unfold pickFinal
  cases hms : minWeightStories cfg (rootCands cfg pat t) with
  | nil => exact absurd hms hne
  | cons x xs => exact ⟨_, rfl⟩

/-- the canonical labeling shows that a consistent labeling always exists -/
theorem consistent_exists (pat : Nat → Int) (hpat : ∀ n, StateOk (pat n)) (t : GTree) :
    ∃ L, Labeling L ∧ Consistent pat L t := by
  refine ⟨fun n => if pat n = 1 then 1 else 0, ?_, ?_⟩
  · intro k; by_cases h : pat k = 1 <;> simp [h]
  · intro n _ hm
    rcases hpat n with h | h | h
    · simp [h]
    · simp [h]
    · exact absurd h hm

/-! ### from the analysed subtree (common ancestor of the presences) to the whole tree -/

@[simp] theorem name_node (n : Nat) (cs : List GTree) : (GTree.node n cs).name = n := rfl
@[simp] theorem name_leaf (n : Nat) : (GTree.leaf n).name = n := rfl

theorem edgeCost_tri (w : Nat × Nat) (σ a b : Int) :
    edgeCost w σ b ≤ edgeCost w σ a + edgeCost w a b := by
  unfold edgeCost
  by_cases h1 : σ = b
  · simp [h1]
  · by_cases h2 : a = b
    · subst h2; simp [h1]
    · by_cases h3 : σ = a
      · subst h3; simp [h1]
      · simp only [h1, h2, h3, if_false]
        split <;> split <;> omega

theorem costFrom_le_labCostL (w : Nat × Nat) (L : Nat → Int) (τ : Int) :
    ∀ (cs : List GTree) (c : GTree), c ∈ cs → costFrom w L τ c ≤ labCostL w L τ cs
  | [], c, h => by cases h
  | t :: ts, c, h => by
    simp only [labCostL]
    rcases List.mem_cons.mp h with rfl | h
    · simp only [costFrom]; omega
    · have := costFrom_le_labCostL w L τ ts c h
      omega

/-- going down to a child never costs more -/
theorem costFrom_child (w : Nat × Nat) (L : Nat → Int) (σ : Int) (n : Nat) (cs : List GTree) (c : GTree)
    (hc : c ∈ cs) : costFrom w L σ c ≤ costFrom w L σ (.node n cs) := by
  have h1 := costFrom_le_labCostL w L (L n) cs c hc
  have h2 := edgeCost_tri w σ (L n) (L c.name)
  simp only [costFrom, labCost, name_node] at h1 ⊢
  omega

theorem leafNames_child : ∀ (cs : List GTree) (c : GTree), c ∈ cs → ∀ k ∈ leafNames c, k ∈ leafNamesL cs
  | [], c, h, _, _ => by cases h
  | t :: ts, c, h, k, hk => by
    simp only [leafNamesL, List.mem_append]
    rcases List.mem_cons.mp h with rfl | h
    · exact Or.inl hk
    · exact Or.inr (leafNames_child ts c h k hk)

theorem nodeNames_child_len : ∀ (cs : List GTree) (c : GTree), c ∈ cs → (nodeNames c).length ≤ (nodeNamesL cs).length
  | [], c, h => by cases h
  | t :: ts, c, h => by
    simp only [nodeNamesL, List.length_append]
    rcases List.mem_cons.mp h with rfl | h
    · omega
    · have := nodeNames_child_len ts c h; omega

/-- a property that holds at a node and is inherited by children holds at the common ancestor found
by `lcaSub` -/
theorem lcaSub_induct (P : GTree → Prop) (hstep : ∀ n cs c, c ∈ cs → P (.node n cs) → P c) (ps : List Nat) :
    ∀ (f : Nat) (t : GTree), P t → P (lcaSub ps f t)
  | 0, t, h => by simpa [lcaSub] using h
  | f+1, .leaf n, h => by simpa [lcaSub] using h
  | f+1, .node n cs, h => by
    simp only [lcaSub]
    split
    · rename_i c hfind
      exact lcaSub_induct P hstep ps f c (hstep n cs c (List.mem_of_find?_eq_some hfind) h)
    · exact h

mutual
/-- every internal node has at least one child -/
def proper : GTree → Bool
  | .leaf _ => true
  | .node _ cs => !cs.isEmpty && properL cs
def properL : List GTree → Bool
  | [] => true
  | t :: ts => proper t && properL ts
end

theorem properL_mem : ∀ (cs : List GTree) (c : GTree), c ∈ cs → properL cs = true → proper c = true
  | [], c, h, _ => by cases h
  | t :: ts, c, h, hp => by
    simp only [properL, Bool.and_eq_true] at hp
    rcases List.mem_cons.mp h with rfl | h
    · exact hp.1
    · exact properL_mem ts c h hp.2

mutual
theorem proper_has_leaf : ∀ (t : GTree), proper t = true → ∃ k, k ∈ leafNames t
  | .leaf n, _ => ⟨n, by simp [leafNames]⟩
  | .node n cs, h => by
    simp only [proper, Bool.and_eq_true, Bool.not_eq_true', List.isEmpty_eq_false_iff] at h
    cases cs with
    | nil => exact absurd rfl h.1
    | cons c cs' =>
      simp only [properL, Bool.and_eq_true] at h
      obtain ⟨k, hk⟩ := proper_has_leaf c h.2.1
      exact ⟨k, by simp only [leafNames, leafNamesL, List.mem_append]; exact Or.inl hk⟩
end

mutual
/-- a present leaf forces at least one gain on the way down from any state other than "present" -/
theorem leaf_cost (w : Nat × Nat) (L : Nat → Int) (k : Nat) (hk : L k = 1) :
    ∀ (t : GTree), k ∈ leafNames t → ∀ σ : Int, edgeCost w σ 1 ≤ costFrom w L σ t
  | .leaf n, h, σ => by
    simp only [leafNames, List.mem_singleton] at h
    subst h
    simp [costFrom, labCost, name_leaf, hk]
  | .node n cs, h, σ => by
    simp only [leafNames] at h
    simp only [costFrom, labCost, name_node]
    have := leafL_cost w L k hk cs h (L n)
    have h2 := edgeCost_tri w σ (L n) 1
    omega
theorem leafL_cost (w : Nat × Nat) (L : Nat → Int) (k : Nat) (hk : L k = 1) :
    ∀ (ts : List GTree), k ∈ leafNamesL ts → ∀ τ : Int, edgeCost w τ 1 ≤ labCostL w L τ ts
  | [], h, _ => by simp [leafNamesL] at h
  | t :: ts, h, τ => by
    simp only [leafNamesL, List.mem_append] at h
    simp only [labCostL]
    rcases h with h | h
    · have h1 := leaf_cost w L k hk t h τ
      simp only [costFrom] at h1
      omega
    · have := leafL_cost w L k hk ts h τ
      omega
end

/-- **C08 at the level of `get_gls`** (common ancestor of the presences, early return for an
all-present clade, selection): the returned scenario weighs at most what any consistent labeling of
the *whole* tree costs, counted from "absent" above the root. -/
theorem C08_getGls (cfg : Cfg) (hamf : cfg.allMissingFirst = true) (md : Int) (t : GTree) (pat : List (Nat × Int))
    (hpat : ∀ n, StateOk (patOf md pat n)) (hg : (nodeNames t).length ≤ cfg.gpl) (hp : proper t = true)
    (story : Story) (h : getGls cfg md t pat = some story)
    (L : Nat → Int) (hL : Labeling L) (hcons : Consistent (patOf md pat) L t) :
    weightOf cfg.w story ≤ costFrom cfg.w L 0 t := by
  unfold getGls glsCandidates at h
  simp only at h
  generalize hps : (leafNames t).filter (fun n => patOf md pat n == 1) = ps at h
  have hsub := lcaSub_induct
    (fun s => (nodeNames s).length ≤ cfg.gpl ∧ Consistent (patOf md pat) L s ∧
      costFrom cfg.w L 0 s ≤ costFrom cfg.w L 0 t ∧ proper s = true)
    (by
      intro n cs c hc ⟨h1, h2, h3, h4⟩
      refine ⟨?_, ?_, ?_, ?_⟩
      · have := nodeNames_child_len cs c hc
        simp only [nodeNames, List.length_cons] at h1
        omega
      · intro k hk; exact h2 k (by simp only [leafNames]; exact leafNames_child cs c hc k hk)
      · exact Nat.le_trans (costFrom_child cfg.w L 0 n cs c hc) h3
      · simp only [proper, Bool.and_eq_true] at h4
        exact properL_mem cs c hc h4.2)
    ps (size t) t ⟨hg, hcons, Nat.le_refl _, hp⟩
  generalize lcaSub ps (size t) t = sub at h hsub
  obtain ⟨s1, s2, s3, s4⟩ := hsub
  split at h
  · rename_i hall
    simp only [pickFinal, List.foldl_nil, Option.some.injEq] at h
    subst h
    obtain ⟨k, hk⟩ := proper_has_leaf sub s4
    have hk1 : patOf md pat k = 1 := by
      have := List.all_eq_true.mp hall k hk
      simpa using this
    have hLk : L k = 1 := by rw [s2 k hk (by omega), hk1]
    have := leaf_cost cfg.w L k hLk sub hk 0
    have e : edgeCost cfg.w 0 1 = cfg.w.1 := by simp [edgeCost]
    have hw : weightOf cfg.w [(sub.name, (1 : Int))] = cfg.w.1 := by
      simp [weightOf_cons, weightOf_nil]
    omega
  · have := C08_optimal cfg hamf _ hpat sub (by rw [nodeNames_length] at s1; omega) story h L hL s2
    omega

theorem lookup_mem {β : Type} : ∀ (l : List (Nat × β)) (n : Nat) (v : β), l.lookup n = some v → (n, v) ∈ l
  | [], _, _, h => by simp [List.lookup] at h
  | (k, x) :: l, n, v, h => by
    simp only [List.lookup] at h
    split at h
    · rename_i heq
      have : n = k := by simpa using heq
      simp only [Option.some.injEq] at h
      subst this; subst h
      exact List.mem_cons_self
    · exact List.mem_cons_of_mem _ (lookup_mem l n v h)

/-! ### achievability: the scenario induces a consistent labeling that costs no more than it weighs -/

mutual
/-- the state of every node of `t` when the scenario is replayed with `t` itself in state `σ` -/
def stateMap (story : Story) (σ : Int) : GTree → List (Nat × Int)
  | .leaf n => [(n, σ)]
  | .node n cs => (n, σ) :: stateMapL story σ cs
def stateMapL (story : Story) (σ : Int) : List GTree → List (Nat × Int)
  | [] => []
  | t :: ts => stateMap story ((lookupM story t.name).getD σ) t ++ stateMapL story σ ts
end

mutual
/-- cost of the state changes of the replay inside `t` -/
def replayCost (w : Nat × Nat) (story : Story) (σ : Int) : GTree → Nat
  | .leaf _ => 0
  | .node _ cs => replayCostL w story σ cs
def replayCostL (w : Nat × Nat) (story : Story) (σ : Int) : List GTree → Nat
  | [] => 0
  | t :: ts => (edgeCost w σ ((lookupM story t.name).getD σ) +
      replayCost w story ((lookupM story t.name).getD σ) t) + replayCostL w story σ ts
end

theorem stateMap_head (story : Story) (σ : Int) (t : GTree) : (t.name, σ) ∈ stateMap story σ t := by
  cases t <;> simp [stateMap]

mutual
theorem stateMap_keys (story : Story) : ∀ (t : GTree) (σ : Int), (stateMap story σ t).map (·.1) = nodeNames t
  | .leaf n, σ => by simp [stateMap, nodeNames]
  | .node n cs, σ => by simp [stateMap, nodeNames, stateMapL_keys story cs σ]
theorem stateMapL_keys (story : Story) : ∀ (ts : List GTree) (σ : Int), (stateMapL story σ ts).map (·.1) = nodeNamesL ts
  | [], σ => by simp [stateMapL, nodeNamesL]
  | t :: ts, σ => by simp [stateMapL, nodeNamesL, stateMap_keys story t, stateMapL_keys story ts σ]
end

theorem lookupM_val (story : Story) (k : Nat) (v : Int) (h : lookupM story k = some v) : v = 1 ∨ v = 0 := by
  unfold lookupM at h
  split at h
  · left; simpa using h.symm
  · split at h
    · right; simpa using h.symm
    · cases h

theorem lookupM_mem (story : Story) (k : Nat) (v : Int) (h : lookupM story k = some v) : (k, v) ∈ story := by
  unfold lookupM at h
  split at h
  · rename_i hc
    have : v = 1 := by simpa using h.symm
    subst this; exact List.contains_iff_mem.mp hc
  · split at h
    · rename_i hc
      have : v = 0 := by simpa using h.symm
      subst this; exact List.contains_iff_mem.mp hc
    · cases h

theorem getD_val (story : Story) (k : Nat) (σ : Int) (hσ : σ = 0 ∨ σ = 1) :
    (lookupM story k).getD σ = 0 ∨ (lookupM story k).getD σ = 1 := by
  cases h : lookupM story k with
  | none => simpa using hσ
  | some v => rcases lookupM_val story k v h with h | h <;> simp [h]

mutual
theorem stateMap_vals (story : Story) : ∀ (t : GTree) (σ : Int), (σ = 0 ∨ σ = 1) →
    ∀ p ∈ stateMap story σ t, p.2 = 0 ∨ p.2 = 1
  | .leaf n, σ, hσ, p, hp => by
    simp only [stateMap, List.mem_singleton] at hp; subst hp; exact hσ
  | .node n cs, σ, hσ, p, hp => by
    simp only [stateMap, List.mem_cons] at hp
    rcases hp with rfl | hp
    · exact hσ
    · exact stateMapL_vals story cs σ hσ p hp
theorem stateMapL_vals (story : Story) : ∀ (ts : List GTree) (σ : Int), (σ = 0 ∨ σ = 1) →
    ∀ p ∈ stateMapL story σ ts, p.2 = 0 ∨ p.2 = 1
  | [], _, _, p, hp => by simp [stateMapL] at hp
  | t :: ts, σ, hσ, p, hp => by
    simp only [stateMapL, List.mem_append] at hp
    rcases hp with hp | hp
    · exact stateMap_vals story t _ (getD_val story t.name σ hσ) p hp
    · exact stateMapL_vals story ts σ hσ p hp
end

mutual
theorem below_sub_stateMap (story : Story) : ∀ (t : GTree) (σ : Int), ∀ p ∈ below story σ t, p ∈ stateMap story σ t
  | .leaf n, σ, p, hp => by simpa [below, stateMap] using hp
  | .node n cs, σ, p, hp => by
    simp only [below] at hp
    simp only [stateMap]
    exact List.mem_cons_of_mem _ (belowL_sub_stateMapL story cs σ p hp)
theorem belowL_sub_stateMapL (story : Story) : ∀ (ts : List GTree) (σ : Int), ∀ p ∈ belowL story σ ts, p ∈ stateMapL story σ ts
  | [], _, p, hp => by simp [belowL] at hp
  | t :: ts, σ, p, hp => by
    simp only [belowL, List.mem_append] at hp
    simp only [stateMapL, List.mem_append]
    rcases hp with hp | hp
    · exact Or.inl (below_sub_stateMap story t _ p hp)
    · exact Or.inr (belowL_sub_stateMapL story ts σ p hp)
end

mutual
/-- a labeling that agrees with the replayed states costs exactly what the replay's state changes cost -/
theorem labCost_eq (w : Nat × Nat) (story : Story) (L : Nat → Int) : ∀ (t : GTree) (σ : Int),
    (∀ p ∈ stateMap story σ t, L p.1 = p.2) → labCost w L t = replayCost w story σ t
  | .leaf n, σ, _ => by simp [labCost, replayCost]
  | .node n cs, σ, h => by
    have hn : L n = σ := h (n, σ) (by simp [stateMap])
    simp only [labCost, replayCost, hn]
    exact labCostL_eq w story L cs σ (fun p hp => h p (by simp only [stateMap]; exact List.mem_cons_of_mem _ hp))
theorem labCostL_eq (w : Nat × Nat) (story : Story) (L : Nat → Int) : ∀ (ts : List GTree) (σ : Int),
    (∀ p ∈ stateMapL story σ ts, L p.1 = p.2) → labCostL w L σ ts = replayCostL w story σ ts
  | [], _, _ => by simp [labCostL, replayCostL]
  | t :: ts, σ, h => by
    have h1 : ∀ p ∈ stateMap story ((lookupM story t.name).getD σ) t, L p.1 = p.2 :=
      fun p hp => h p (by simp only [stateMapL, List.mem_append]; exact Or.inl hp)
    have h2 : ∀ p ∈ stateMapL story σ ts, L p.1 = p.2 :=
      fun p hp => h p (by simp only [stateMapL, List.mem_append]; exact Or.inr hp)
    have hname : L t.name = (lookupM story t.name).getD σ := h1 _ (stateMap_head story _ t)
    simp only [labCostL, replayCostL, hname, labCost_eq w story L t _ h1, labCostL_eq w story L ts σ h2]
end

/-- weight of the events of the scenario on the nodes named in `A` -/
def wOn (w : Nat × Nat) (story : Story) (A : List Nat) : Nat :=
  weightOf w (story.filter fun e => A.contains e.1)

theorem weightOf_filter_le (w : Nat × Nat) (p : Nat × Int → Bool) : ∀ (s : Story), weightOf w (s.filter p) ≤ weightOf w s
  | [] => by simp
  | (k, e) :: s => by
    have ih := weightOf_filter_le w p s
    simp only [List.filter_cons]
    split
    · simp only [weightOf_cons]; omega
    · simp only [weightOf_cons]; omega

theorem wOn_append (w : Nat × Nat) (A B : List Nat) (hdis : ∀ k ∈ A, k ∉ B) : ∀ (s : Story),
    wOn w s A + wOn w s B ≤ wOn w s (A ++ B)
  | [] => by simp [wOn, weightOf_nil]
  | (k, e) :: s => by
    have ih := wOn_append w A B hdis s
    unfold wOn at ih ⊢
    simp only [List.filter_cons, List.contains_iff_mem, List.mem_append, decide_eq_true_eq]
    by_cases hA : k ∈ A
    · have hB : k ∉ B := hdis k hA
      simp only [hA, hB, true_or, if_true, if_false, weightOf_cons]
      omega
    · by_cases hB : k ∈ B
      · simp only [hA, hB, or_true, if_true, if_false, weightOf_cons]
        omega
      · simp only [hA, hB, or_self, if_false]
        exact ih

theorem mem_weight (w : Nat × Nat) (k : Nat) (v : Int) : ∀ (s : Story), (k, v) ∈ s →
    ((if v = 1 then w.1 else 0) + (if v = 0 then w.2 else 0)) ≤ weightOf w s
  | [], h => by cases h
  | (k', e) :: s, h => by
    simp only [weightOf_cons]
    rcases List.mem_cons.mp h with h | h
    · simp only [Prod.mk.injEq] at h
      rw [h.2]; omega
    · have := mem_weight w k v s h
      omega

theorem wOn_single (w : Nat × Nat) (story : Story) (k : Nat) (σ : Int) :
    edgeCost w σ ((lookupM story k).getD σ) ≤ wOn w story [k] := by
  cases h : lookupM story k with
  | none => simp [edgeCost]
  | some v =>
    simp only [Option.getD_some]
    have hm : (k, v) ∈ story.filter fun e => [k].contains e.1 :=
      List.mem_filter.mpr ⟨lookupM_mem story k v h, by simp⟩
    have := mem_weight w k v _ hm
    unfold wOn
    rcases lookupM_val story k v h with hv | hv <;> subst hv <;> unfold edgeCost <;> split <;> simp at this ⊢ <;> omega

mutual
theorem replayCost_le (w : Nat × Nat) (story : Story) : ∀ (t : GTree) (σ : Int), (nodeNames t).Nodup →
    replayCost w story σ t ≤ wOn w story (descNames t)
  | .leaf n, σ, _ => by simp [replayCost]
  | .node n cs, σ, h => by
    simp only [replayCost, descNames]
    simp only [nodeNames] at h
    exact replayCostL_le w story cs σ (List.nodup_cons.mp h).2
theorem replayCostL_le (w : Nat × Nat) (story : Story) : ∀ (ts : List GTree) (σ : Int), (nodeNamesL ts).Nodup →
    replayCostL w story σ ts ≤ wOn w story (nodeNamesL ts)
  | [], σ, _ => by simp [replayCostL]
  | t :: ts, σ, h => by
    simp only [nodeNamesL] at h
    obtain ⟨h1, h2, h3⟩ := List.nodup_append.mp h
    have i1 := replayCost_le w story t ((lookupM story t.name).getD σ) h1
    have i2 := replayCostL_le w story ts σ h2
    have i3 := wOn_single w story t.name σ
    have hsplit := wOn_append w (nodeNames t) (nodeNamesL ts) (fun k hk hk' => h3 k hk k hk' rfl) story
    have hhead := wOn_append w [t.name] (descNames t) (by
      intro k hk hk'
      simp only [List.mem_singleton] at hk
      subst hk
      exact name_not_desc t h1 hk') story
    rw [show [t.name] ++ descNames t = nodeNames t from by rw [nodeNames_eq]; rfl] at hhead
    simp only [replayCostL, nodeNamesL]
    omega
end

theorem lookup_of_nodup {β : Type} : ∀ (l : List (Nat × β)), (l.map (·.1)).Nodup → ∀ p ∈ l, l.lookup p.1 = some p.2
  | [], _, p, hp => by cases hp
  | (k, x) :: l, h, p, hp => by
    simp only [List.map_cons, List.nodup_cons] at h
    simp only [List.lookup]
    rcases List.mem_cons.mp hp with rfl | hp
    · simp
    · have hne : p.1 ≠ k := by
        intro e; exact h.1 (e ▸ List.mem_map.mpr ⟨p, hp, rfl⟩)
      have : (p.1 == k) = false := by simpa using hne
      simp only [this]
      exact lookup_of_nodup l h.2 p hp

/-- **C08 (achievability)**: any scenario whose replay reproduces the known leaves induces a
consistent labeling that costs at most what the scenario weighs – so, with any limit, the weight of
the returned scenario is never below the minimum over labelings. -/
theorem achievable_of_good (w : Nat × Nat) (pat : Nat → Int) (t : GTree) (hnd : (nodeNames t).Nodup)
    (story : Story) (hgood : Good pat (replay story t)) :
    ∃ L, Labeling L ∧ Consistent pat L t ∧ costFrom w L 0 t ≤ weightOf w story := by
  let τ := (lookupM story t.name).getD 0
  let sm := stateMap story τ t
  have hτ : τ = 0 ∨ τ = 1 := getD_val story t.name 0 (Or.inl rfl)
  have hkeys : (sm.map (·.1)).Nodup := by rw [stateMap_keys]; exact hnd
  have hagree : ∀ p ∈ sm, ((sm.lookup p.1).getD 0 : Int) = p.2 := by
    intro p hp; rw [lookup_of_nodup sm hkeys p hp]; rfl
  refine ⟨fun k => (sm.lookup k).getD 0, ?_, ?_, ?_⟩
  · intro k
    cases h : sm.lookup k with
    | none => left; simp [h]
    | some v =>
      have := stateMap_vals story t τ hτ _ (lookup_mem sm k v h)
      simpa [h] using this
  · intro n hn hknown
    have hm : n ∈ (below story τ t).map (·.1) := by rw [below_leaves]; exact hn
    obtain ⟨p, hp, rfl⟩ := List.mem_map.mp hm
    have h1 := hagree p (below_sub_stateMap story t τ p hp)
    have h2 := hgood p (by unfold replay; exact hp) hknown
    simp only
    rw [h1, h2]
  · have hL := labCost_eq w story (fun k => (sm.lookup k).getD 0) t τ hagree
    have hname : ((sm.lookup t.name).getD 0 : Int) = τ := hagree _ (stateMap_head story τ t)
    simp only [costFrom, hL, hname]
    have i1 := replayCost_le w story t τ hnd
    have i3 : edgeCost w 0 τ ≤ wOn w story [t.name] := wOn_single w story t.name 0
    have hhead := wOn_append w [t.name] (descNames t) (by
      intro k hk hk'
      simp only [List.mem_singleton] at hk
      subst hk
      exact name_not_desc t hnd hk') story
    have hle := weightOf_filter_le w (fun e => ([t.name] ++ descNames t).contains e.1) story
    unfold wOn at hhead i1 i3
    omega

theorem C08_achievable (cfg : Cfg) (pat : Nat → Int) (hpat : ∀ n, StateOk (pat n))
    (t : GTree) (hnd : (nodeNames t).Nodup) (story : Story)
    (h : pickFinal cfg (minWeightStories cfg (rootCands cfg pat t)) = some story) :
    ∃ L, Labeling L ∧ Consistent pat L t ∧ costFrom cfg.w L 0 t ≤ weightOf cfg.w story :=
  achievable_of_good cfg.w pat t hnd story (C07_get_gls cfg pat hpat t hnd story h).1

/-- **C08**: with a limit that cannot bind the weight of the returned scenario *is* the minimum
over all consistent labelings: it is the cost of one of them and at most the cost of each. -/
theorem C08_minimum (cfg : Cfg) (hamf : cfg.allMissingFirst = true) (pat : Nat → Int) (hpat : ∀ n, StateOk (pat n))
    (t : GTree) (hnd : (nodeNames t).Nodup) (hg : (descNames t).length ≤ cfg.gpl) (story : Story)
    (h : pickFinal cfg (minWeightStories cfg (rootCands cfg pat t)) = some story) :
    (∃ L, Labeling L ∧ Consistent pat L t ∧ costFrom cfg.w L 0 t = weightOf cfg.w story) ∧
    ∀ L, Labeling L → Consistent pat L t → weightOf cfg.w story ≤ costFrom cfg.w L 0 t := by
  have hopt := C08_optimal cfg hamf pat hpat t hg story h
  obtain ⟨L, h1, h2, h3⟩ := C08_achievable cfg pat hpat t hnd story h
  exact ⟨⟨L, h1, h2, Nat.le_antisymm h3 (hopt L h1 h2)⟩, hopt⟩

/-! ### not vacuous: a concrete multifurcating tree with a missing leaf -/

/-- `((1,2,3)10,(4,5)11)12` -/
def exTree : GTree := .node 12 [.node 10 [.leaf 1, .leaf 2, .leaf 3], .node 11 [.leaf 4, .leaf 5]]
def exPat : List (Nat × Int) := [(1, 1), (2, 0), (3, -1), (4, 1), (5, 1)]
def exCfg : Cfg := { w := (1, 3), gpl := 99, pushGains := true, allMissingFirst := true }

example : getGls exCfg (-1) exTree exPat = some [(1, 1), (11, 1)] := by decide
example : proper exTree = true ∧ (nodeNames exTree).length ≤ exCfg.gpl := by decide
/-- patterns over {1, 0, -1} with missing data kept or recoded as absence are what the theorems assume -/
theorem patOf_stateOk (md : Int) (hmd : md = 0 ∨ md = -1) (pat : List (Nat × Int)) (hv : ∀ p ∈ pat, StateOk p.2)
    (n : Nat) : StateOk (patOf md pat n) := by
  unfold patOf
  split
  · rename_i v hl
    have := hv _ (lookup_mem pat n v hl)
    split
    · rcases hmd with h | h <;> rw [h] <;> simp [StateOk]
    · exact this
  · exact Or.inr (Or.inl rfl)

example : ∀ n, StateOk (patOf (-1) exPat n) :=
  patOf_stateOk (-1) (Or.inr rfl) exPat (by unfold StateOk exPat; decide)

end Verif.GL
