import Verif.Lemmas.GainLoss
set_option linter.unusedSimpArgs false
set_option linter.unusedVariables false
/-!
# C07 — every candidate scenario of the bottom-up pass replays to the pattern

Invariant: every candidate `(s, story)` kept at a node `t` only has events strictly below `t`
and, replayed below `t` from any state compatible with `s`, reproduces every known leaf.
Selection steps (pruning by weight, the gains-per-lineage limit, the final choice) only choose
among candidates, so the returned scenario replays to the pattern – for every tree with distinct
node names, binary or multifurcating, every weight pair, limit and `push_gains`, with missing
leaves unconstrained, in the shipped and in the repaired order of the case split.
-/
namespace Verif.GL

def Good (pat : Nat → Int) (l : List (Nat × Int)) : Prop := ∀ p ∈ l, pat p.1 ≠ -1 → p.2 = pat p.1

def Compat (s σ : Int) : Prop := (s = 1 → σ = 1) ∧ (s = 0 → σ = 0)

def KeysBelow (story : Story) (t : GTree) : Prop := ∀ p ∈ story, p.1 ∈ descNames t

def Sound (pat : Nat → Int) (c : Cand) (t : GTree) : Prop :=
  KeysBelow c.2 t ∧ ∀ σ, Compat c.1 σ → Good pat (below c.2 σ t)

theorem good_append {pat : Nat → Int} {a b : List (Nat × Int)} (ha : Good pat a) (hb : Good pat b) :
    Good pat (a ++ b) := by
  intro p hp
  rcases List.mem_append.mp hp with h | h
  · exact ha p h
  · exact hb p h

/-- replaying the children with a global story that agrees with each child's own story below the
child, and gives each child a state compatible with its candidate, reproduces all known leaves -/
theorem goodL_of_ch (pat : Nat → Int) (ch : Ch) (hS : ∀ p ∈ ch, Sound pat p.2 p.1)
    (story : Story) (σ : Int)
    (P1 : ∀ p ∈ ch, ∀ k ∈ descNames p.1, lookupM story k = lookupM p.2.2 k)
    (P2 : ∀ p ∈ ch, Compat p.2.1 ((lookupM story p.1.name).getD σ)) :
    Good pat (belowL story σ (ch.map (·.1))) := by
  induction ch with
  | nil => intro p hp; simp [belowL] at hp
  | cons x xs ih =>
    simp only [List.map_cons, belowL]
    apply good_append
    · rw [below_congr x.1 story x.2.2 _ (P1 x List.mem_cons_self)]
      exact (hS x List.mem_cons_self).2 _ (P2 x List.mem_cons_self)
    · exact ih (fun p hp => hS p (List.mem_cons_of_mem _ hp))
        (fun p hp => P1 p (List.mem_cons_of_mem _ hp)) (fun p hp => P2 p (List.mem_cons_of_mem _ hp))

def chStory (ch : Ch) : Story := ch.flatMap (·.2.2)

/-- the extra events of the mixed case: an event `v` on every child whose state is `v` -/
def extras (ch : Ch) (v : Int) : Story := (ch.filter fun p => p.2.1 == v).map fun p => (p.1.name, v)

theorem mem_extras (ch : Ch) (v : Int) (k : Nat) (e : Int) :
    (k, e) ∈ extras ch v ↔ e = v ∧ ∃ p ∈ ch, p.1.name = k ∧ p.2.1 = v := by
  simp only [extras, List.mem_map, List.mem_filter, beq_iff_eq, Prod.mk.injEq]
  constructor
  · rintro ⟨p, ⟨hp, hv⟩, rfl, rfl⟩; exact ⟨rfl, p, hp, rfl, hv⟩
  · rintro ⟨rfl, p, hp, rfl, hv⟩; exact ⟨p, ⟨hp, hv⟩, rfl, rfl⟩

theorem nodup_child (ch : Ch) (hnd : (ch.flatMap fun p => nodeNames p.1).Nodup) (p : GTree × Cand)
    (hp : p ∈ ch) : (nodeNames p.1).Nodup := by
  induction ch with
  | nil => cases hp
  | cons x xs ih =>
    simp only [List.flatMap_cons] at hnd
    have h := List.nodup_append.mp hnd
    rcases List.mem_cons.mp hp with rfl | hp'
    · exact h.1
    · exact ih h.2.1 hp'

theorem name_not_desc (t : GTree) (h : (nodeNames t).Nodup) : t.name ∉ descNames t := by
  rw [nodeNames_eq] at h
  exact (List.nodup_cons.mp h).1

/-- inside the subtree of child `p`, the combined story has exactly `p`'s own events -/
theorem mem_chStory_child (ch : Ch) (hnd : (ch.flatMap fun p => nodeNames p.1).Nodup)
    (hK : ∀ p ∈ ch, KeysBelow p.2.2 p.1) (p : GTree × Cand) (hp : p ∈ ch) (k : Nat)
    (hk : k ∈ nodeNames p.1) (e : Int) : (k, e) ∈ chStory ch ↔ (k, e) ∈ p.2.2 := by
  simp only [chStory, List.mem_flatMap]
  constructor
  · rintro ⟨q, hq, hm⟩
    have hkq : k ∈ nodeNames q.1 := desc_sub_nodeNames _ _ (hK q hq _ hm)
    rw [disjoint_of_nodup ch hnd p q hp hq k hk hkq]
    exact hm
  · intro hm; exact ⟨p, hp, hm⟩

/-- the two lookup facts for a story `chStory ch ++ extras ch v` -/
theorem lookup_facts (ch : Ch) (hnd : (ch.flatMap fun p => nodeNames p.1).Nodup)
    (hK : ∀ p ∈ ch, KeysBelow p.2.2 p.1) (v : Int) (hv : v = 1 ∨ v = 0) (p : GTree × Cand) (hp : p ∈ ch) :
    (∀ k ∈ descNames p.1, lookupM (chStory ch ++ extras ch v) k = lookupM p.2.2 k) ∧
    lookupM (chStory ch ++ extras ch v) p.1.name = if p.2.1 = v then some v else none := by
  have hndp := nodup_child ch hnd p hp
  constructor
  · intro k hk
    apply lookupM_congr
    intro e
    simp only [List.mem_append]
    constructor
    · rintro (h | h)
      · exact (mem_chStory_child ch hnd hK p hp k (desc_sub_nodeNames _ _ hk) e).mp h
      · obtain ⟨_, q, hq, hqn, _⟩ := (mem_extras ch v k e).mp h
        have hkq : k ∈ nodeNames q.1 := hqn ▸ name_mem_nodeNames q.1
        have := disjoint_of_nodup ch hnd p q hp hq k (desc_sub_nodeNames _ _ hk) hkq
        subst this
        exact absurd (hqn ▸ hk) (name_not_desc p.1 hndp)
    · intro h
      exact Or.inl ((mem_chStory_child ch hnd hK p hp k (desc_sub_nodeNames _ _ hk) e).mpr h)
  · have hnot : ∀ e : Int, (p.1.name, e) ∉ chStory ch := by
      intro e h
      have := (mem_chStory_child ch hnd hK p hp _ (name_mem_nodeNames p.1) e).mp h
      exact name_not_desc p.1 hndp (hK p hp _ this)
    have hex : ∀ e : Int, (p.1.name, e) ∈ extras ch v ↔ e = v ∧ p.2.1 = v := by
      intro e
      rw [mem_extras]
      constructor
      · rintro ⟨he, q, hq, hqn, hqv⟩
        have := disjoint_of_nodup ch hnd p q hp hq p.1.name (name_mem_nodeNames p.1)
          (hqn ▸ name_mem_nodeNames q.1)
        subst this
        exact ⟨he, hqv⟩
      · rintro ⟨he, hpv⟩; exact ⟨he, p, hp, rfl, hpv⟩
    by_cases hpv : p.2.1 = v
    · simp only [hpv, if_true]
      unfold lookupM
      rcases hv with rfl | rfl
      · have : (chStory ch ++ extras ch 1).contains (p.1.name, (1 : Int)) = true := by
          simp only [List.contains_iff_mem, List.mem_append]
          exact Or.inr ((hex 1).mpr ⟨rfl, hpv⟩)
        rw [this]; rfl
      · have h1 : (chStory ch ++ extras ch 0).contains (p.1.name, (1 : Int)) = false := by
          have : (p.1.name, (1 : Int)) ∉ chStory ch ++ extras ch 0 := by
            simp only [List.mem_append, not_or]
            exact ⟨hnot 1, fun h => by have := ((hex 1).mp h).1; omega⟩
          simpa [List.contains_iff_mem] using this
        have h0 : (chStory ch ++ extras ch 0).contains (p.1.name, (0 : Int)) = true := by
          simp only [List.contains_iff_mem, List.mem_append]
          exact Or.inr ((hex 0).mpr ⟨rfl, hpv⟩)
        rw [h1, h0]; rfl
    · simp only [hpv, if_false]
      apply lookupM_none
      intro e h
      rcases List.mem_append.mp h with h | h
      · exact hnot e h
      · exact hpv ((hex e).mp h).2


/-- the same two facts for the plain combined story (no extra events) -/
theorem lookup_facts_plain (ch : Ch) (hnd : (ch.flatMap fun p => nodeNames p.1).Nodup)
    (hK : ∀ p ∈ ch, KeysBelow p.2.2 p.1) (p : GTree × Cand) (hp : p ∈ ch) :
    (∀ k ∈ descNames p.1, lookupM (chStory ch) k = lookupM p.2.2 k) ∧
    lookupM (chStory ch) p.1.name = none := by
  have hndp := nodup_child ch hnd p hp
  constructor
  · intro k hk
    apply lookupM_congr
    intro e
    exact mem_chStory_child ch hnd hK p hp k (desc_sub_nodeNames _ _ hk) e
  · apply lookupM_none
    intro e h
    have := (mem_chStory_child ch hnd hK p hp _ (name_mem_nodeNames p.1) e).mp h
    exact name_not_desc p.1 hndp (hK p hp _ this)

theorem count_cons (a x : Int) (l : List Int) :
    count a (x :: l) = (if x = a then 1 else 0) + count a l := by
  simp only [count, List.filter_cons, beq_iff_eq]
  split <;> simp <;> omega

theorem count_le (a : Int) (l : List Int) : count a l ≤ l.length := List.length_filter_le _ _

theorem count_two_le (a b : Int) (hab : a ≠ b) (l : List Int) : count a l + count b l ≤ l.length := by
  induction l with
  | nil => simp [count]
  | cons x xs ih =>
    rw [count_cons, count_cons]
    simp only [List.length_cons]
    by_cases h1 : x = a
    · subst h1
      have hne : ¬ x = b := hab
      simp only [if_true, hne, if_false]; omega
    · by_cases h2 : x = b
      · subst h2
        have hne : ¬ x = a := h1
        simp only [hne, if_false, if_true]; omega
      · simp only [h1, h2, if_false]; omega

theorem zip_map_eq (ch : Ch) :
    (ch.map (·.1.name)).zip (ch.map (·.2.1)) = ch.map fun p => (p.1.name, p.2.1) := by
  induction ch with
  | nil => rfl
  | cons x xs ih => simp [ih]

theorem count_two (a b : Int) (hab : a ≠ b) (l : List Int) (h : count a l + count b l = l.length) :
    ∀ x ∈ l, x = a ∨ x = b := by
  induction l with
  | nil => intro x hx; cases hx
  | cons y ys ih =>
    rw [count_cons, count_cons] at h
    simp only [List.length_cons] at h
    have hle := count_two_le a b hab ys
    intro x hx
    by_cases h1 : y = a
    · by_cases h2 : y = b
      · exact absurd (h1.symm.trans h2) hab
      · simp only [h1, h2, if_true, if_false] at h
        rcases List.mem_cons.mp hx with rfl | hx
        · exact Or.inl h1
        · have : ¬ (a = b) := hab
          simp only [this, if_false] at h
          exact ih (by omega) x hx
    · by_cases h2 : y = b
      · simp only [h1, h2, if_true, if_false] at h
        rcases List.mem_cons.mp hx with rfl | hx
        · exact Or.inr h2
        · have : ¬ (b = a) := fun e => hab e.symm
          simp only [this, if_false] at h
          exact ih (by omega) x hx
      · simp only [h1, h2, if_false] at h
        omega

theorem count_all (a : Int) (l : List Int) (h : count a l = l.length) : ∀ x ∈ l, x = a := by
  induction l with
  | nil => intro x hx; cases hx
  | cons y ys ih =>
    rw [count_cons] at h
    simp only [List.length_cons] at h
    have hle := count_le a ys
    intro x hx
    by_cases h1 : y = a
    · simp only [h1, if_true] at h
      rcases List.mem_cons.mp hx with rfl | hx
      · exact h1
      · exact ih (by omega) x hx
    · simp only [h1, if_false] at h; omega

/-- **the combination step is sound**: every new candidate built from sound child candidates is
sound for the parent -/
theorem combine_sound (cfg : Cfg) (pat : Nat → Int) (n : Nat) (ch : Ch)
    (hnd : (ch.flatMap fun p => nodeNames p.1).Nodup) (hS : ∀ p ∈ ch, Sound pat p.2 p.1)
    (c : Cand) (hc : c ∈ combine cfg (ch.map (·.1.name)) (ch.map (·.2))) :
    Sound pat c (.node n (ch.map (·.1))) := by
  have hK : ∀ p ∈ ch, KeysBelow p.2.2 p.1 := fun p hp => (hS p hp).1
  have hstories : (ch.map (·.2)).flatMap (·.2) = chStory ch := by
    simp [chStory, List.flatMap_map]
  have hstates : (ch.map (·.2)).map (·.1) = ch.map (·.2.1) := by simp
  have hzip := zip_map_eq ch
  have hexA : (((ch.map (·.1.name)).zip (ch.map (·.2.1))).filter (·.2 == 1)).map
      (fun p => (p.1, (1 : Int))) = extras ch 1 := by
    rw [hzip]; simp [extras, List.filter_map, List.map_map, Function.comp_def]
  have hexB : (((ch.map (·.1.name)).zip (ch.map (·.2.1))).filter (·.2 == 0)).map
      (fun p => (p.1, (0 : Int))) = extras ch 0 := by
    rw [hzip]; simp [extras, List.filter_map, List.map_map, Function.comp_def]
  have memNames : ∀ p ∈ ch, ∀ k ∈ nodeNames p.1, k ∈ nodeNamesL (ch.map (·.1)) := by
    intro p hp k hk
    clear hc hS hK hnd hstories hstates hzip hexA hexB
    induction ch with
    | nil => cases hp
    | cons x xs ih =>
      simp only [List.map_cons, nodeNamesL, List.mem_append]
      rcases List.mem_cons.mp hp with rfl | hp'
      · exact Or.inl hk
      · exact Or.inr (ih hp')
  -- keys of the two kinds of stories lie below the node
  have keysPlain : KeysBelow (chStory ch) (.node n (ch.map (·.1))) := by
    intro q hq
    simp only [chStory, List.mem_flatMap] at hq
    obtain ⟨p, hp, hm⟩ := hq
    exact memNames p hp _ (desc_sub_nodeNames _ _ (hK p hp _ hm))
  have keysExtra : ∀ v, KeysBelow (chStory ch ++ extras ch v) (.node n (ch.map (·.1))) := by
    intro v q hq
    rcases List.mem_append.mp hq with h | h
    · exact keysPlain q h
    · obtain ⟨k, e⟩ := q
      obtain ⟨_, p, hp, hpn, _⟩ := (mem_extras ch v k e).mp h
      exact memNames p hp _ (hpn ▸ name_mem_nodeNames p.1)
  -- the plain story with a uniform state
  have plain : ∀ (s : Int), (∀ x ∈ ch.map (·.2.1), Compat x s ∨ x = -1) → (s = 1 ∨ s = 0 ∨ s = -1) →
      (s = -1 → ∀ x ∈ ch.map (·.2.1), x = -1) → Sound pat (s, chStory ch) (.node n (ch.map (·.1))) := by
    intro s hcomp hs hm
    refine ⟨keysPlain, ?_⟩
    intro σ hσ
    simp only [below]
    apply goodL_of_ch pat ch hS (chStory ch) σ
    · intro p hp; exact (lookup_facts_plain ch hnd hK p hp).1
    · intro p hp
      rw [(lookup_facts_plain ch hnd hK p hp).2]
      simp only [Option.getD_none]
      have hx := hcomp p.2.1 (List.mem_map.mpr ⟨p, hp, rfl⟩)
      rcases hs with rfl | rfl | rfl
      · have := hσ.1 rfl; subst this
        rcases hx with hx | hx
        · exact hx
        · constructor <;> intro h <;> omega
      · have := hσ.2 rfl; subst this
        rcases hx with hx | hx
        · exact hx
        · constructor <;> intro h <;> omega
      · have := hm rfl p.2.1 (List.mem_map.mpr ⟨p, hp, rfl⟩)
        constructor <;> intro h <;> omega
  unfold combine at hc
  simp only [hstories, hstates] at hc
  split at hc
  · -- repaired order: all children undetermined
    rename_i h
    simp only [Bool.and_eq_true, beq_iff_eq] at h
    simp only [List.mem_singleton] at hc; subst hc
    have hall := count_all (-1) _ h.2
    exact plain (-1) (fun x hx => Or.inr (hall x hx)) (Or.inr (Or.inr rfl)) (fun _ => hall)
  · split at hc
    · rename_i h
      simp only [beq_iff_eq] at h
      simp only [List.mem_singleton] at hc; subst hc
      have hall := count_two 1 (-1) (by omega) _ h
      refine plain 1 (fun x hx => ?_) (Or.inl rfl) (fun h => by omega)
      rcases hall x hx with rfl | rfl
      · exact Or.inl ⟨fun _ => rfl, fun h => by omega⟩
      · exact Or.inr rfl
    · split at hc
      · rename_i h
        simp only [beq_iff_eq] at h
        simp only [List.mem_singleton] at hc; subst hc
        have hall := count_two 0 (-1) (by omega) _ h
        refine plain 0 (fun x hx => ?_) (Or.inr (Or.inl rfl)) (fun h => by omega)
        rcases hall x hx with rfl | rfl
        · exact Or.inl ⟨fun h => by omega, fun _ => rfl⟩
        · exact Or.inr rfl
      · split at hc
        · rename_i h
          simp only [beq_iff_eq] at h
          simp only [List.mem_singleton] at hc; subst hc
          have hall := count_all (-1) _ h
          exact plain (-1) (fun x hx => Or.inr (hall x hx)) (Or.inr (Or.inr rfl)) (fun _ => hall)
        · -- mixed children: a loss scenario under a present parent, a gain scenario under an absent one
          simp only [hexA, hexB, List.mem_cons, List.mem_singleton, List.not_mem_nil, or_false] at hc
          rcases hc with rfl | rfl
          · refine ⟨keysExtra 0, ?_⟩
            intro σ hσ
            have := hσ.1 rfl; subst this
            simp only [below]
            apply goodL_of_ch pat ch hS _ 1
            · intro p hp; exact (lookup_facts ch hnd hK 0 (Or.inr rfl) p hp).1
            · intro p hp
              rw [(lookup_facts ch hnd hK 0 (Or.inr rfl) p hp).2]
              by_cases h0 : p.2.1 = 0
              · simp [h0, Compat]
              · simp only [h0, if_false, Option.getD_none]
                exact ⟨fun _ => rfl, fun h => absurd h h0⟩
          · refine ⟨keysExtra 1, ?_⟩
            intro σ hσ
            have := hσ.2 rfl; subst this
            simp only [below]
            apply goodL_of_ch pat ch hS _ 0
            · intro p hp; exact (lookup_facts ch hnd hK 1 (Or.inl rfl) p hp).1
            · intro p hp
              rw [(lookup_facts ch hnd hK 1 (Or.inl rfl) p hp).2]
              by_cases h1 : p.2.1 = 1
              · simp [h1, Compat]
              · simp only [h1, if_false, Option.getD_none]
                exact ⟨fun h => absurd h h1, fun _ => rfl⟩


/-! ### selection steps only choose among candidates -/

theorem pick_sub (cfg : Cfg) (ok : List Cand) (st : Int) (c : Cand) (h : c ∈ pick cfg ok st) : c ∈ ok := by
  unfold pick at h
  simp only at h
  split at h
  · cases h
  · exact (List.mem_filter.mp (List.mem_filter.mp h).1).1

theorem prune_sub (cfg : Cfg) (X : List Cand) (c : Cand) (h : c ∈ prune cfg X) : c ∈ X := by
  unfold prune at h
  simp only at h
  rcases List.mem_append.mp h with h | h
  · rcases List.mem_append.mp h with h | h
    · exact (List.mem_filter.mp (pick_sub cfg _ 0 c h)).1
    · exact (List.mem_filter.mp (pick_sub cfg _ 1 c h)).1
  · split at h
    · exact (List.mem_filter.mp (pick_sub cfg _ (-1) c h)).1
    · cases h

theorem mem_product {α : Type} (ls : List (List α)) : ∀ (combo : List α), combo ∈ product ls →
    combo.length = ls.length ∧ ∀ p ∈ ls.zip combo, p.2 ∈ p.1 := by
  induction ls with
  | nil => intro combo h; simp [product] at h; subst h; simp
  | cons l ls ih =>
    intro combo h
    simp only [product, List.mem_flatMap, List.mem_map] at h
    obtain ⟨x, hx, r, hr, rfl⟩ := h
    obtain ⟨h1, h2⟩ := ih r hr
    refine ⟨by simp [h1], ?_⟩
    intro p hp
    simp only [List.zip_cons_cons, List.mem_cons] at hp
    rcases hp with rfl | hp
    · exact hx
    · exact h2 p hp

theorem candsL_eq (cfg : Cfg) (pat : Nat → Int) (ts : List GTree) :
    candsL cfg pat ts = ts.map (cands cfg pat) := by
  induction ts with
  | nil => simp [candsL]
  | cons t ts ih => simp [candsL, ih]

theorem nodeNamesL_eq (ts : List GTree) : nodeNamesL ts = ts.flatMap nodeNames := by
  induction ts with
  | nil => simp [nodeNamesL]
  | cons t ts ih => simp [nodeNamesL, ih]

/-- **the bottom-up invariant**: every candidate kept at a node is sound -/
theorem cands_sound (cfg : Cfg) (pat : Nat → Int) (hpat : ∀ n, pat n = 1 ∨ pat n = 0 ∨ pat n = -1) :
    ∀ (t : GTree), (nodeNames t).Nodup → ∀ c ∈ cands cfg pat t, Sound pat c t
  | .leaf n, _, c, hc => by
    simp only [cands, List.mem_singleton] at hc
    subst hc
    refine ⟨(by intro p hp; cases hp), ?_⟩
    intro σ hσ p hp hk
    simp only [below, List.mem_singleton] at hp
    subst hp
    simp only at hk ⊢
    rcases hpat n with h | h | h
    · rw [h]; exact hσ.1 h
    · rw [h]; exact hσ.2 h
    · exact absurd h hk
  | .node n cs, hnd, c, hc => by
    simp only [cands] at hc
    have hc' := prune_sub cfg _ c hc
    simp only [List.mem_flatMap] at hc'
    obtain ⟨combo, hcombo, hcc⟩ := hc'
    rw [candsL_eq] at hcombo
    obtain ⟨hlen, hmem⟩ := mem_product _ combo hcombo
    simp only [List.length_map] at hlen
    have hndL : (nodeNamesL cs).Nodup := by
      simp only [nodeNames] at hnd; exact (List.nodup_cons.mp hnd).2
    let ch : Ch := cs.zip combo
    have hfst : ch.map (·.1) = cs := by
      simp only [ch]; exact List.map_fst_zip (by omega)
    have hsnd : ch.map (·.2) = combo := by
      simp only [ch]; exact List.map_snd_zip (by omega)
    have hnames : cs.map GTree.name = ch.map (·.1.name) := by
      rw [← hfst]; simp
    have hndch : (ch.flatMap fun p => nodeNames p.1).Nodup := by
      have : (ch.flatMap fun p => nodeNames p.1) = (ch.map (·.1)).flatMap nodeNames := by
        simp [List.flatMap_map]
      rw [this, hfst, ← nodeNamesL_eq]; exact hndL
    have hS : ∀ p ∈ ch, Sound pat p.2 p.1 := by
      intro p hp
      have hpc : p.2 ∈ cands cfg pat p.1 := by
        have hz : (cands cfg pat p.1, p.2) ∈ (cs.map (cands cfg pat)).zip combo := by
          have : (cs.map (cands cfg pat)).zip combo = ch.map fun q => (cands cfg pat q.1, q.2) := by
            simp only [ch, List.zip_map_left]
            rfl
          rw [this]; exact List.mem_map.mpr ⟨p, hp, rfl⟩
        exact hmem _ hz
      have hpt : p.1 ∈ cs := hfst ▸ List.mem_map.mpr ⟨p, hp, rfl⟩
      have hndp : (nodeNames p.1).Nodup := nodup_child ch hndch p hp
      exact cands_sound cfg pat hpat p.1 hndp p.2 hpc
    have := combine_sound cfg pat n ch hndch hS c (by rw [← hnames, hsnd]; exact hcc)
    rw [hfst] at this
    exact this
termination_by t => sizeOf t
decreasing_by
  all_goals simp_wf
  have : sizeOf p.1 < sizeOf cs := List.sizeOf_lt_of_mem hpt
  omega


/-! ### the returned scenario -/

mutual
theorem below_no_events : ∀ (t : GTree) (s : Story) (σ : Int), (∀ k ∈ descNames t, lookupM s k = none) →
    ∀ p ∈ below s σ t, p.2 = σ
  | .leaf n, s, σ, _, p, hp => by simp only [below, List.mem_singleton] at hp; rw [hp]
  | .node n cs, s, σ, h, p, hp => by
    simp only [below] at hp
    exact belowL_no_events cs s σ (by simpa [descNames] using h) p hp
theorem belowL_no_events : ∀ (ts : List GTree) (s : Story) (σ : Int), (∀ k ∈ nodeNamesL ts, lookupM s k = none) →
    ∀ p ∈ belowL s σ ts, p.2 = σ
  | [], _, _, _, p, hp => by simp [belowL] at hp
  | t :: ts, s, σ, h, p, hp => by
    simp only [belowL, List.mem_append] at hp
    rcases hp with hp | hp
    · have hn : lookupM s t.name = none :=
        h _ (by simp only [nodeNamesL, List.mem_append]; exact Or.inl (name_mem_nodeNames t))
      rw [hn] at hp
      exact below_no_events t s σ (fun k hk => h k (by
        simp only [nodeNamesL, List.mem_append]; exact Or.inl (desc_sub_nodeNames t k hk))) p hp
    · exact belowL_no_events ts s σ (fun k hk => h k (by
        simp only [nodeNamesL, List.mem_append]; exact Or.inr hk)) p hp
end

/-- every root scenario (with the root gain added for a present root) replays to the pattern -/
theorem rootCands_good (cfg : Cfg) (pat : Nat → Int) (hpat : ∀ n, pat n = 1 ∨ pat n = 0 ∨ pat n = -1)
    (t : GTree) (hnd : (nodeNames t).Nodup) (story : Story) (h : story ∈ rootCands cfg pat t) :
    Good pat (replay story t) ∧ ∀ p ∈ story, p.1 ∈ nodeNames t := by
  simp only [rootCands, List.mem_map] at h
  obtain ⟨c, hc, rfl⟩ := h
  obtain ⟨hK, hG⟩ := cands_sound cfg pat hpat t hnd c hc
  have hnn : ∀ e : Int, (t.name, e) ∉ c.2 := fun e he => name_not_desc t hnd (hK _ he)
  by_cases h1 : c.1 = 1
  · simp only [h1, beq_self_eq_true, if_true]
    constructor
    · unfold replay
      have hl : lookupM (c.2 ++ [(t.name, (1 : Int))]) t.name = some 1 := by
        unfold lookupM
        have : (c.2 ++ [(t.name, (1 : Int))]).contains (t.name, (1 : Int)) = true := by
          simp [List.contains_iff_mem]
        rw [this]; rfl
      rw [hl]
      simp only [Option.getD_some]
      rw [below_congr t _ c.2 1 (by
        intro k hk
        apply lookupM_congr
        intro e
        simp only [List.mem_append, List.mem_singleton, Prod.mk.injEq]
        constructor
        · rintro (h | ⟨rfl, _⟩)
          · exact h
          · exact absurd hk (name_not_desc t hnd)
        · intro h; exact Or.inl h)]
      exact hG 1 ⟨fun _ => rfl, fun h => by omega⟩
    · intro p hp
      rcases List.mem_append.mp hp with hp | hp
      · exact desc_sub_nodeNames _ _ (hK p hp)
      · simp only [List.mem_singleton] at hp; rw [hp]; exact name_mem_nodeNames t
  · have hne : (c.1 == 1) = false := by simpa using h1
    simp only [hne, Bool.false_eq_true, if_false]
    constructor
    · unfold replay
      rw [lookupM_none c.2 t.name hnn]
      exact hG 0 ⟨fun h => absurd h h1, fun _ => rfl⟩
    · intro p hp; exact desc_sub_nodeNames _ _ (hK p hp)

theorem foldl_select {α : Type} (P : α → α → Prop) [DecidableRel P] (ys : List α) : ∀ (b : α),
    ys.foldl (fun best s => if P s best then s else best) b = b ∨
    ys.foldl (fun best s => if P s best then s else best) b ∈ ys := by
  induction ys with
  | nil => intro b; simp
  | cons y ys ih =>
    intro b
    simp only [List.foldl_cons]
    by_cases hp : P y b
    · simp only [hp, if_true]
      rcases ih y with h | h
      · right; rw [h]; simp
      · right; exact List.mem_cons_of_mem _ h
    · simp only [hp, if_false]
      rcases ih b with h | h
      · left; exact h
      · right; exact List.mem_cons_of_mem _ h

theorem pickFinal_mem (cfg : Cfg) (ss : List Story) (s : Story) (h : pickFinal cfg ss = some s) : s ∈ ss := by
  unfold pickFinal at h
  cases ss with
  | nil => simp at h
  | cons x xs =>
    simp only [Option.some.injEq] at h
    subst h
    rcases foldl_select (fun (s best : Story) =>
        count (if cfg.pushGains then (1 : Int) else 0) (s.map (·.2)) <
          count (if cfg.pushGains then (1 : Int) else 0) (best.map (·.2))) xs x with h | h
    · rw [h]; simp
    · exact List.mem_cons_of_mem _ h

theorem minWeight_sub (cfg : Cfg) (ss : List Story) (s : Story) (h : s ∈ minWeightStories cfg ss) : s ∈ ss := by
  unfold minWeightStories at h
  split at h
  · cases h
  · exact (List.mem_filter.mp h).1

/-- **C07 (weighted parsimony)**: whatever scenario the selection returns for a subtree `t` with
distinct node names – the common ancestor of the presences – replaying it from the root of `t`
reproduces every leaf whose state is known (missing leaves are unconstrained; when missing data is
recoded as absence the pattern has no missing entries and they must replay as absent), and every
event names a node of `t`.  Holds for every weight pair, gains-per-lineage limit, `push_gains`,
and for the shipped as well as the repaired order of the case split. -/
theorem C07_get_gls (cfg : Cfg) (pat : Nat → Int) (hpat : ∀ n, pat n = 1 ∨ pat n = 0 ∨ pat n = -1)
    (t : GTree) (hnd : (nodeNames t).Nodup) (story : Story)
    (h : pickFinal cfg (minWeightStories cfg (rootCands cfg pat t)) = some story) :
    Good pat (replay story t) ∧ ∀ p ∈ story, p.1 ∈ nodeNames t :=
  rootCands_good cfg pat hpat t hnd story
    (minWeight_sub cfg _ story (pickFinal_mem cfg _ story h))

/-- the early return: if all leaves below the common ancestor are present, the single gain at
the ancestor replays to the pattern -/
theorem C07_single_gain (pat : Nat → Int) (t : GTree) (hnd : (nodeNames t).Nodup)
    (hall : ∀ l ∈ leafNames t, pat l = 1) : Good pat (replay [(t.name, 1)] t) := by
  unfold replay
  have hl : lookupM [(t.name, (1 : Int))] t.name = some 1 := by
    unfold lookupM; simp
  rw [hl]
  simp only [Option.getD_some]
  intro p hp _
  have h1 := below_no_events t [(t.name, (1 : Int))] 1 (by
    intro k hk
    apply lookupM_none
    intro e he
    simp only [List.mem_singleton, Prod.mk.injEq] at he
    exact name_not_desc t hnd (he.1 ▸ hk)) p hp
  have hleaf : p.1 ∈ leafNames t := by
    rw [← below_leaves t [(t.name, (1 : Int))] 1]
    exact List.mem_map.mpr ⟨p, hp, rfl⟩
  rw [h1, hall p.1 hleaf]

end Verif.GL
