import Mathlib.Algebra.BigOperators.Group.Finset.Basic
import Mathlib.Algebra.Order.BigOperators.Group.Finset
import Mathlib.Tactic.FieldSimp
import Mathlib.Tactic.SplitIfs
import Mathlib.Algebra.BigOperators.Ring.Finset
import Verif.Lemmas.RatCarrier
import Verif.Props.C03
import Verif.Props.C01
set_option linter.unusedSectionVars false
set_option linter.unusedSimpArgs false
set_option linter.unusedVariables false
/-!
# C03 — a sequence aligned with itself has normalised distance 0 (global and overlap mode)

Exact arithmetic (`ℚ`), every scale and every prosodic factor `≥ 0`, gap penalties `≤ 0`, for
every scorer that is *diagonally dominant*:  `s(x,y) ≤ (s(x,x) + s(y,y)) / 2`  and  `0 ≤ s(x,x)`
(checked for the shipped models by the harness on every run, see `c03.py`).

The table of the kernel is bounded cell by cell:  `T(i,j) ≤ U(i) + U(j)`  where `U(i)` is half the
self-score of the first `i` segments, and the diagonal reaches the bound: `T(i,i) ≥ 2·U(i)`.  So
the returned similarity is the self-score and `1 − 2·sim / (self + self) = 0`.
-/
namespace Verif.Align
open ScoreOps ScoreLaws Finset

/-- the scorer is diagonally dominant -/
def DiagDom (s : Nat → Nat → ℚ) : Prop := ∀ x y, s x y ≤ (s x x + s y y) / 2 ∧ 0 ≤ s x x

/-- the input is a sequence paired with itself -/
structure SelfPair (inp : Input ℚ) : Prop where
  b : inp.b = inp.a
  pro : inp.proB = inp.proA
  gA : ∀ g ∈ inp.gopA, g ≤ 0
  gB : ∀ g ∈ inp.gopB, g ≤ 0
  scale : 0 ≤ inp.scale
  factor : 0 ≤ inp.factor
  dom : DiagDom inp.scorer

/-- weight of a matched pair on the diagonal: `1 + factor` for the sound-class aligner, `1` for the others -/
def wOf (cfg : Cfg) (inp : Input ℚ) : ℚ := if cfg.flavour = 0 then 1 + inp.factor else 1

/-- half the self-score of the first `i` segments -/
def U (cfg : Cfg) (inp : Input ℚ) (i : Nat) : ℚ :=
  ∑ k ∈ range i, wOf cfg inp * inp.scorer (inp.a.getD k 0) (inp.a.getD k 0) / 2

theorem U_succ (cfg : Cfg) (inp : Input ℚ) (i : Nat) :
    U cfg inp (i + 1) = U cfg inp i + wOf cfg inp * inp.scorer (inp.a.getD i 0) (inp.a.getD i 0) / 2 := by
  unfold U; rw [Finset.sum_range_succ]

theorem wOf_pos (cfg : Cfg) (inp : Input ℚ) (h : SelfPair inp) : 0 < wOf cfg inp := by
  unfold wOf; split
  · have := h.factor; linarith
  · norm_num

theorem U_step_nonneg (cfg : Cfg) (inp : Input ℚ) (h : SelfPair inp) (i : Nat) :
    0 ≤ wOf cfg inp * inp.scorer (inp.a.getD i 0) (inp.a.getD i 0) / 2 := by
  have h1 := (h.dom (inp.a.getD i 0) (inp.a.getD i 0)).2
  have h2 := wOf_pos cfg inp h
  exact div_nonneg (mul_nonneg (le_of_lt h2) h1) (by norm_num)

theorem U_mono (cfg : Cfg) (inp : Input ℚ) (h : SelfPair inp) (i : Nat) : U cfg inp i ≤ U cfg inp (i + 1) := by
  rw [U_succ]; have := U_step_nonneg cfg inp h i; linarith

theorem U_nonneg (cfg : Cfg) (inp : Input ℚ) (h : SelfPair inp) (i : Nat) : 0 ≤ U cfg inp i := by
  induction i with
  | zero => simp [U]
  | succ i ih => have := U_mono cfg inp h i; linarith

theorem getD_nonpos : ∀ (l : List ℚ), (∀ g ∈ l, g ≤ 0) → ∀ k, l.getD k 0 ≤ 0
  | [], _, k => by simp
  | x :: xs, h, 0 => by simpa using h x (by simp)
  | x :: xs, h, k + 1 => by
    simpa using getD_nonpos xs (fun g hg => h g (by simp [hg])) k

theorem gA_le (inp : Input ℚ) (h : SelfPair inp) (j : Nat) : gA inp j ≤ 0 := by
  unfold gA; exact getD_nonpos inp.gopA h.gA (j - 1)

theorem gB_le (inp : Input ℚ) (h : SelfPair inp) (i : Nat) : gB inp i ≤ 0 := by
  unfold gB; exact getD_nonpos inp.gopB h.gB (i - 1)

theorem candUp_le (cfg : Cfg) (inp : Input ℚ) (h : SelfPair inp) (i j : Nat) (c : Cell ℚ) :
    candUp cfg inp i j c ≤ c.1 := by
  have hg := gB_le inp h i
  have hs := h.scale
  have hgs : gB inp i * inp.scale ≤ 0 := mul_nonpos_of_nonpos_of_nonneg hg hs
  unfold candUp
  simp only [q_add, q_sub, q_mul, q_big]
  split_ifs <;> linarith

theorem candLeft_le (cfg : Cfg) (inp : Input ℚ) (h : SelfPair inp) (i j : Nat) (c : Cell ℚ) :
    candLeft cfg inp i j c ≤ c.1 := by
  have hg := gA_le inp h j
  have hs := h.scale
  have hgs : gA inp j * inp.scale ≤ 0 := mul_nonpos_of_nonpos_of_nonneg hg hs
  unfold candLeft
  simp only [q_add, q_sub, q_mul, q_big]
  split_ifs <;> linarith

/-- a matched pair never adds more than the two half self-scores -/
theorem candDiag_le (cfg : Cfg) (inp : Input ℚ) (h : SelfPair inp) (i j : Nat) (v : ℚ) :
    candDiag cfg inp (i + 1) (j + 1) v ≤
      v + wOf cfg inp * inp.scorer (inp.a.getD i 0) (inp.a.getD i 0) / 2 +
        wOf cfg inp * inp.scorer (inp.a.getD j 0) (inp.a.getD j 0) / 2 := by
  have hsc : sc inp (i + 1) (j + 1) = inp.scorer (inp.a.getD j 0) (inp.a.getD i 0) := by
    simp [sc, h.b]
  have hd := h.dom (inp.a.getD j 0) (inp.a.getD i 0)
  have hdi := (h.dom (inp.a.getD i 0) (inp.a.getD i 0)).2
  have hdj := (h.dom (inp.a.getD j 0) (inp.a.getD j 0)).2
  have hf := h.factor
  set s := inp.scorer (inp.a.getD j 0) (inp.a.getD i 0) with hs
  set di := inp.scorer (inp.a.getD i 0) (inp.a.getD i 0)
  set dj := inp.scorer (inp.a.getD j 0) (inp.a.getD j 0)
  have hm : (dj + di) / 2 ≥ 0 := by linarith
  -- s·(1+c) ≤ w·(di+dj)/2 for every 0 ≤ c ≤ factor when w = 1 + factor; s ≤ (di+dj)/2 when w = 1
  have key : ∀ c : ℚ, 0 ≤ c → c ≤ inp.factor → s * (1 + c) ≤ (1 + inp.factor) * ((dj + di) / 2) := by
    intro c hc0 hc1
    by_cases hs0 : 0 ≤ s
    · have h1 : s * (1 + c) ≤ ((dj + di) / 2) * (1 + c) := mul_le_mul_of_nonneg_right hd.1 (by linarith)
      have h2 : ((dj + di) / 2) * (1 + c) ≤ ((dj + di) / 2) * (1 + inp.factor) := mul_le_mul_of_nonneg_left (by linarith) hm
      linarith
    · have h1 : s * (1 + c) ≤ 0 := mul_nonpos_of_nonpos_of_nonneg (by linarith) (by linarith)
      have h2 : 0 ≤ (1 + inp.factor) * ((dj + di) / 2) := mul_nonneg (by linarith) hm
      linarith
  unfold candDiag wOf
  simp only [hsc, ← hs]
  by_cases hfl : cfg.flavour = 0
  · simp only [hfl, ne_eq, not_true_eq_false, if_false, if_true]
    split
    · have := key inp.factor hf (le_refl _)
      simp only [q_add, q_mul]; linarith
    · split
      · have := key 0 (le_refl _) hf
        simp only [q_add, q_sub, q_big]; linarith
      · split
        · have := key (inp.factor / 2) (by linarith) (by linarith)
          simp only [q_add, q_mul, q_half]; linarith
        · have := key 0 (le_refl _) hf
          simp only [q_add]; linarith
  · simp only [hfl, ne_eq, not_false_eq_true, if_true, if_false, q_add]
    linarith [hd.1]

/-- on the diagonal the matched pair adds exactly the self-score of the segment -/
theorem candDiag_diag (cfg : Cfg) (inp : Input ℚ) (h : SelfPair inp) (i : Nat) (v : ℚ) :
    candDiag cfg inp (i + 1) (i + 1) v = v + wOf cfg inp * inp.scorer (inp.a.getD i 0) (inp.a.getD i 0) := by
  have hsc : sc inp (i + 1) (i + 1) = inp.scorer (inp.a.getD i 0) (inp.a.getD i 0) := by
    simp [sc, h.b]
  have hp : pA inp (i + 1) = pB inp (i + 1) := by simp [pA, pB, h.pro]
  unfold candDiag wOf
  simp only [hsc, hp, if_true]
  by_cases hfl : cfg.flavour = 0
  · simp only [hfl, ne_eq, not_true_eq_false, if_false, if_true, q_add, q_mul]; ring
  · simp only [hfl, ne_eq, not_false_eq_true, if_true, if_false, q_add]; ring

variable (cfg : Cfg) (inp : Input ℚ)

theorem kernel_row0_le (h : SelfPair inp) (hl : cfg.mode ≠ .local) (j : Nat) (c : Cell ℚ) (hc : c.1 ≤ 0) :
    ((kernelOf cfg inp).row0 j c).1 ≤ 0 := by
  have hg := gA_le inp h j
  have hgs : gA inp j * inp.scale ≤ 0 := mul_nonpos_of_nonpos_of_nonneg hg h.scale
  simp only [kernelOf, hl, if_false]
  split_ifs <;> simp only [q_add, q_mul, q_zero] <;> linarith

theorem kernel_col0_le (h : SelfPair inp) (hl : cfg.mode ≠ .local) (i : Nat) (c : Cell ℚ) (hc : c.1 ≤ 0) :
    ((kernelOf cfg inp).col0 i c).1 ≤ 0 := by
  have hg := gB_le inp h i
  have hgs : gB inp i * inp.scale ≤ 0 := mul_nonpos_of_nonpos_of_nonneg hg h.scale
  simp only [kernelOf, hl, if_false]
  split_ifs <;> simp only [q_add, q_mul, q_zero] <;> linarith

theorem T_row0_le (h : SelfPair inp) (hl : cfg.mode ≠ .local) (M j : Nat) (hj : j ≤ M) :
    (T (kernelOf cfg inp).toFill M 0 j).1 ≤ 0 := by
  induction j with
  | zero =>
    rw [T_corner]
    simp only [AffKernel.toFill, kernelOf, hl, if_false]
    exact le_refl _
  | succ j ih =>
    rw [T_row0 _ M j (by omega)]
    exact kernel_row0_le cfg inp h hl (j + 1) _ (ih (by omega))

theorem T_col0_le (h : SelfPair inp) (hl : cfg.mode ≠ .local) (M i : Nat) :
    (T (kernelOf cfg inp).toFill M i 0).1 ≤ 0 := by
  induction i with
  | zero =>
    rw [T_corner]
    simp only [AffKernel.toFill, kernelOf, hl, if_false]
    exact le_refl _
  | succ i ih =>
    rw [T_col0]
    exact kernel_col0_le cfg inp h hl (i + 1) _ ih

/-- **upper bound**: every cell is at most the two half self-scores of the prefixes it aligns -/
theorem T_le_U (h : SelfPair inp) (hl : cfg.mode ≠ .local) (M : Nat) :
    ∀ i j, j ≤ M → (T (kernelOf cfg inp).toFill M i j).1 ≤ U cfg inp i + U cfg inp j := by
  intro i
  induction i with
  | zero =>
    intro j hj
    have := T_row0_le cfg inp h hl M j hj
    have h1 := U_nonneg cfg inp h 0
    have h2 := U_nonneg cfg inp h j
    linarith
  | succ i ihi =>
    intro j
    induction j with
    | zero =>
      intro _
      have := T_col0_le cfg inp h hl M (i + 1)
      have h1 := U_nonneg cfg inp h (i + 1)
      have h2 := U_nonneg cfg inp h 0
      linarith
    | succ j ihj =>
      intro hj
      have hT : T (kernelOf cfg inp).toFill M (i + 1) (j + 1) =
          (kernelOf cfg inp).choose (candUp cfg inp (i + 1) (j + 1) (T (kernelOf cfg inp).toFill M i (j + 1)))
            (candDiag cfg inp (i + 1) (j + 1) (T (kernelOf cfg inp).toFill M i j).1)
            (candLeft cfg inp (i + 1) (j + 1) (T (kernelOf cfg inp).toFill M (i + 1) j)) :=
        T_inner_aff _ M i j (by omega)
      rw [hT]
      have hup := ihi (j + 1) hj
      have hleft := ihj (by omega)
      have hul := ihi j (by omega)
      have hch := kernel_chooseOkG cfg inp hl
        (candUp cfg inp (i + 1) (j + 1) (T (kernelOf cfg inp).toFill M i (j + 1)))
        (candDiag cfg inp (i + 1) (j + 1) (T (kernelOf cfg inp).toFill M i j).1)
        (candLeft cfg inp (i + 1) (j + 1) (T (kernelOf cfg inp).toFill M (i + 1) j))
      have hmi := U_mono cfg inp h i
      have hmj := U_mono cfg inp h j
      rcases hch with e | e | e <;> rw [e]
      · show candUp cfg inp (i + 1) (j + 1) (T (kernelOf cfg inp).toFill M i (j + 1)) ≤ _
        have := candUp_le cfg inp h (i + 1) (j + 1) (T (kernelOf cfg inp).toFill M i (j + 1))
        linarith
      · show candDiag cfg inp (i + 1) (j + 1) (T (kernelOf cfg inp).toFill M i j).1 ≤ _
        have := candDiag_le cfg inp h i j (T (kernelOf cfg inp).toFill M i j).1
        rw [U_succ cfg inp i, U_succ cfg inp j]
        linarith
      · show candLeft cfg inp (i + 1) (j + 1) (T (kernelOf cfg inp).toFill M (i + 1) j) ≤ _
        have := candLeft_le cfg inp h (i + 1) (j + 1) (T (kernelOf cfg inp).toFill M (i + 1) j)
        linarith

/-- **lower bound on the diagonal**: the identity alignment is always available -/
theorem T_diag_ge (h : SelfPair inp) (hl : cfg.mode ≠ .local) (M : Nat) :
    ∀ i, i ≤ M → 2 * U cfg inp i ≤ (T (kernelOf cfg inp).toFill M i i).1 := by
  intro i
  induction i with
  | zero =>
    intro _
    rw [T_corner]
    simp [AffKernel.toFill, kernelOf, hl, U]
  | succ i ih =>
    intro hi
    have hT : T (kernelOf cfg inp).toFill M (i + 1) (i + 1) =
        (kernelOf cfg inp).choose (candUp cfg inp (i + 1) (i + 1) (T (kernelOf cfg inp).toFill M i (i + 1)))
          (candDiag cfg inp (i + 1) (i + 1) (T (kernelOf cfg inp).toFill M i i).1)
          (candLeft cfg inp (i + 1) (i + 1) (T (kernelOf cfg inp).toFill M (i + 1) i)) :=
      T_inner_aff _ M i i (by omega)
    rw [hT]
    have hmax : ∀ a m b : ℚ, m ≤ ((kernelOf cfg inp).choose a m b).1 := by
      intro a m b
      simp only [kernelOf, hl, if_false]
      exact (chooseGlobal_max cfg a m b).2.1
    refine le_trans ?_ (hmax _ _ _)
    rw [candDiag_diag cfg inp h i, U_succ]
    have := ih (by omega)
    linarith

theorem selfScore_eq (h : SelfPair inp) : selfScore cfg inp inp.a = 2 * U cfg inp inp.a.length := by
  unfold selfScore U
  simp only [q_sum]
  rw [Finset.mul_sum]
  have : ∀ (l : List Nat) (g : Nat → ℚ), (l.map g).sum = ∑ k ∈ range l.length, g (l.getD k 0) := by
    intro l g
    induction l with
    | nil => simp
    | cons x xs ih =>
      rw [List.length_cons, Finset.sum_range_succ', List.map_cons, List.sum_cons, ih]
      simp [add_comm]
  rw [this]
  apply Finset.sum_congr rfl
  intro k _
  unfold wOf
  by_cases hfl : cfg.flavour = 0
  · simp only [hfl, if_true, q_mul, q_add, q_one]; ring
  · simp only [hfl, if_false]; ring

/-- **C03, self-distance (global and overlap mode, exact arithmetic)**: a sequence aligned with itself under a
diagonally dominant scorer gets its self-score as similarity and the normalised distance 0 -/
theorem C03_self_distance (h : SelfPair inp) (hm : cfg.mode = .global ∨ cfg.mode = .overlap) (ha : inp.a ≠ [])
    (hne : selfScore cfg inp inp.a ≠ 0) :
    ∃ cols, run cfg inp = .glob cols (selfScore cfg inp inp.a) ∧
      runDist cfg inp = some (selfScore cfg inp inp.a, 0) := by
  have hl : cfg.mode ≠ .local := by rcases hm with h | h <;> simp [h]
  have hd : cfg.mode ≠ .dialign := by rcases hm with h | h <;> simp [h]
  have hb : inp.b ≠ [] := by rw [h.b]; exact ha
  have hM : inp.M ≠ 0 := by simpa [Input.M] using ha
  have hN : inp.N ≠ 0 := by simpa [Input.N] using hb
  have hNM : inp.N = inp.M := by simp [Input.N, Input.M, h.b]
  have hrow : ∀ j c, ((kernelOf cfg inp).row0 j c).2 ≠ 3 ∧ ((kernelOf cfg inp).row0 j c).2 ≠ 1 := by
    intro j c
    have := fill_row0_move cfg inp hl j c
    rw [fillOf_aff cfg inp hd] at this
    simp only [AffKernel.toFill] at this
    omega
  have hcol : ∀ i c, ((kernelOf cfg inp).col0 i c).2 = 3 := by
    intro i c
    have := fill_col0_move cfg inp hl i c
    rw [fillOf_aff cfg inp hd] at this
    simpa only [AffKernel.toFill] using this
  obtain ⟨cols, h1, h2⟩ :=
    rescore_tbGlobal (kernelOf cfg inp) (kernel_chooseOkG cfg inp hl) hrow hcol inp.a inp.b inp.N inp.M
      (Nat.le_refl _) (Nat.le_refl _)
      (fun i j => (getCell (rowsRev (fillOf cfg inp) inp.M inp.N) inp.N i j).2)
      (by intro i j hi _; simp only [getCell_eq_T _ _ _ _ _ hi, fillOf_aff cfg inp hd])
      inp.N inp.M [] (Nat.le_refl _) (Nat.le_refl _)
  simp only [List.append_nil] at h1
  -- the corner cell is the self-score
  have hval : (T (kernelOf cfg inp).toFill inp.M inp.N inp.M).1 = selfScore cfg inp inp.a := by
    rw [hNM, selfScore_eq cfg inp h]
    have hup := T_le_U cfg inp h hl inp.M inp.M inp.M (le_refl _)
    have hlo := T_diag_ge cfg inp h hl inp.M inp.M (le_refl _)
    have : inp.a.length = inp.M := rfl
    rw [this]
    linarith
  have hrun : run cfg inp = .glob cols (selfScore cfg inp inp.a) := by
    simp only [run, hM, hN, hl, false_or, if_false, h1, getCell_eq_T _ _ _ _ _ (Nat.le_refl _)]
    rw [fillOf_aff cfg inp hd, hval]
  refine ⟨cols, hrun, ?_⟩
  simp only [runDist, hrun, Result.sim?, Option.map_some, distance, h.b]
  congr 1
  simp only [q_sub, q_div, q_mul, q_add, q_one, Prod.mk.injEq, true_and]
  have : selfScore cfg inp inp.a + selfScore cfg inp inp.a ≠ 0 := by
    intro hh; apply hne; linarith
  field_simp
  ring

/-! ### local mode -/

theorem U_le_of_le (h : SelfPair inp) (i j : Nat) (hij : i ≤ j) : U cfg inp i ≤ U cfg inp j := by
  induction j with
  | zero => have : i = 0 := by omega
            subst this; exact le_refl _
  | succ j ih =>
    by_cases h' : i = j + 1
    · subst h'; exact le_refl _
    · exact le_trans (ih (by omega)) (U_mono cfg inp h j)

theorem T_le_U_local (h : SelfPair inp) (hm : cfg.mode = .local) (M : Nat) :
    ∀ i j, j ≤ M → (T (kernelOf cfg inp).toFill M i j).1 ≤ U cfg inp i + U cfg inp j := by
  intro i
  induction i with
  | zero =>
    intro j hj
    rw [T_local_border cfg inp hm M 0 j hj (Or.inl rfl)]
    have h1 := U_nonneg cfg inp h 0
    have h2 := U_nonneg cfg inp h j
    simp only [q_zero]; linarith
  | succ i ihi =>
    intro j
    induction j with
    | zero =>
      intro hj
      rw [T_local_border cfg inp hm M (i + 1) 0 hj (Or.inr rfl)]
      have h1 := U_nonneg cfg inp h (i + 1)
      have h2 := U_nonneg cfg inp h 0
      simp only [q_zero]; linarith
    | succ j ihj =>
      intro hj
      have hT : T (kernelOf cfg inp).toFill M (i + 1) (j + 1) =
          (kernelOf cfg inp).choose (candUp cfg inp (i + 1) (j + 1) (T (kernelOf cfg inp).toFill M i (j + 1)))
            (candDiag cfg inp (i + 1) (j + 1) (T (kernelOf cfg inp).toFill M i j).1)
            (candLeft cfg inp (i + 1) (j + 1) (T (kernelOf cfg inp).toFill M (i + 1) j)) :=
        T_inner_aff _ M i j (by omega)
      rw [hT]
      have hup := ihi (j + 1) hj
      have hleft := ihj (by omega)
      have hul := ihi j (by omega)
      have hch := kernel_chooseOkL cfg inp hm
        (candUp cfg inp (i + 1) (j + 1) (T (kernelOf cfg inp).toFill M i (j + 1)))
        (candDiag cfg inp (i + 1) (j + 1) (T (kernelOf cfg inp).toFill M i j).1)
        (candLeft cfg inp (i + 1) (j + 1) (T (kernelOf cfg inp).toFill M (i + 1) j))
      have hmi := U_mono cfg inp h i
      have hmj := U_mono cfg inp h j
      rcases hch with e | e | e | e <;> rw [e]
      · show candUp cfg inp (i + 1) (j + 1) (T (kernelOf cfg inp).toFill M i (j + 1)) ≤ _
        have := candUp_le cfg inp h (i + 1) (j + 1) (T (kernelOf cfg inp).toFill M i (j + 1))
        linarith
      · show candDiag cfg inp (i + 1) (j + 1) (T (kernelOf cfg inp).toFill M i j).1 ≤ _
        have := candDiag_le cfg inp h i j (T (kernelOf cfg inp).toFill M i j).1
        rw [U_succ cfg inp i, U_succ cfg inp j]
        linarith
      · show candLeft cfg inp (i + 1) (j + 1) (T (kernelOf cfg inp).toFill M (i + 1) j) ≤ _
        have := candLeft_le cfg inp h (i + 1) (j + 1) (T (kernelOf cfg inp).toFill M (i + 1) j)
        linarith
      · show (zero : ℚ) ≤ _
        have h1 := U_nonneg cfg inp h (i + 1)
        have h2 := U_nonneg cfg inp h (j + 1)
        simp only [q_zero]; linarith

theorem T_diag_ge_local (h : SelfPair inp) (hm : cfg.mode = .local) (M : Nat) :
    ∀ i, i ≤ M → 2 * U cfg inp i ≤ (T (kernelOf cfg inp).toFill M i i).1 := by
  intro i
  induction i with
  | zero =>
    intro hi
    rw [T_local_border cfg inp hm M 0 0 hi (Or.inl rfl)]
    simp [U]
  | succ i ih =>
    intro hi
    have hT : T (kernelOf cfg inp).toFill M (i + 1) (i + 1) =
        (kernelOf cfg inp).choose (candUp cfg inp (i + 1) (i + 1) (T (kernelOf cfg inp).toFill M i (i + 1)))
          (candDiag cfg inp (i + 1) (i + 1) (T (kernelOf cfg inp).toFill M i i).1)
          (candLeft cfg inp (i + 1) (i + 1) (T (kernelOf cfg inp).toFill M (i + 1) i)) :=
      T_inner_aff _ M i i (by omega)
    rw [hT]
    have hmax : ∀ a m b : ℚ, m ≤ ((kernelOf cfg inp).choose a m b).1 := by
      intro a m b
      simp only [kernelOf, hm, if_true]
      exact (chooseLocal_max cfg a m b).2.1
    refine le_trans ?_ (hmax _ _ _)
    rw [candDiag_diag cfg inp h i, U_succ]
    have := ih (by omega)
    linarith

/-- what a returning local run reports: the value of a cell of the table that dominates every cell -/
theorem local_run_max (hm : cfg.mode = .local) (i0 j0 k l : Nat) (cols : List (Col Nat)) (sim : ℚ)
    (hr : run cfg inp = .loc i0 j0 k l cols sim) :
    k ≤ inp.N ∧ l ≤ inp.M ∧ sim = (T (kernelOf cfg inp).toFill inp.M k l).1 ∧
      ∀ i j, i ≤ inp.N → j ≤ inp.M → (T (kernelOf cfg inp).toFill inp.M i j).1 ≤ sim := by
  have hd : cfg.mode ≠ .dialign := by simp [hm]
  simp only [run, hm] at hr
  split at hr
  · cases hr
  · simp only [if_true] at hr
    have hspec := bestScan_spec cfg (List.drop 1 (rowsRev (fillOf cfg inp) inp.M inp.N).reverse) 1
      ((zero : ℚ), 0, 0)
    generalize hbs : bestScan cfg 1 (List.drop 1 (rowsRev (fillOf cfg inp) inp.M inp.N).reverse) (zero, 0, 0) = bs
      at hr hspec
    obtain ⟨s, k', l'⟩ := bs
    simp only at hr
    split at hr
    · cases hr
    · rename_i hkl
      have hk : k' ≤ inp.N := by omega
      have hl : l' ≤ inp.M := by omega
      split at hr
      case h_2 => cases hr
      case h_1 i1 j1 cs htb =>
      cases hr
      obtain ⟨a1, a2, a3⟩ := hspec
      simp only [scanRows_length] at a2 a3
      have hsval : s = (T (kernelOf cfg inp).toFill inp.M k l).1 := by
        rcases a3 with a3 | ⟨t, u, ht, hu, a3⟩
        · simp only [Prod.mk.injEq] at a3; omega
        · rw [scanRows_getD _ _ _ _ ht] at a3 hu
          simp only [Prod.mk.injEq] at a3
          obtain ⟨e1, e2, e3⟩ := a3
          have e2' : k = t + 1 := by omega
          subst e1 e2' e3
          simp only [T, fillOf_aff cfg inp hd]
      have hall : ∀ i j, i ≤ inp.N → j ≤ inp.M → (T (kernelOf cfg inp).toFill inp.M i j).1 ≤ s := by
        intro i j hi hj
        by_cases h0 : i = 0 ∨ j = 0
        · rw [T_local_border cfg inp hm _ _ _ hj h0]; exact a1
        · obtain ⟨i', rfl⟩ : ∃ i', i = i' + 1 := ⟨i - 1, by omega⟩
          obtain ⟨j', rfl⟩ : ∃ j', j = j' + 1 := ⟨j - 1, by omega⟩
          have hmem := a2 i' (by omega) (T (kernelOf cfg inp).toFill inp.M (i'+1) (j'+1)) (by
            rw [scanRows_getD _ _ _ _ (by omega), fillOf_aff cfg inp hd]
            have hlen := rowAt_length (kernelOf cfg inp).toFill inp.M (i'+1)
            simp only [T]
            exact getD_mem_drop_one _ _ _ (by omega))
          exact hmem
      refine ⟨hk, hl, ?_, ?_⟩
      · rw [getCell_eq_T _ _ _ _ _ hk, fillOf_aff cfg inp hd]
      · intro i j hi hj
        rw [getCell_eq_T _ _ _ _ _ hk, fillOf_aff cfg inp hd, ← hsval]
        exact hall i j hi hj

/-- **C03, self-distance (local mode, exact arithmetic)**: whenever the local kernel returns for a sequence paired
with itself, the similarity is the self-score and the normalised distance is 0 -/
theorem C03_self_distance_local (h : SelfPair inp) (hm : cfg.mode = .local)
    (i0 j0 k l : Nat) (cols : List (Col Nat)) (sim : ℚ) (hr : run cfg inp = .loc i0 j0 k l cols sim)
    (hne : selfScore cfg inp inp.a ≠ 0) :
    sim = selfScore cfg inp inp.a ∧ runDist cfg inp = some (selfScore cfg inp inp.a, 0) := by
  obtain ⟨hk, hl, hsim, hall⟩ := local_run_max cfg inp hm i0 j0 k l cols sim hr
  have hNM : inp.N = inp.M := by simp [Input.N, Input.M, h.b]
  have hval : sim = selfScore cfg inp inp.a := by
    rw [selfScore_eq cfg inp h]
    have hlen : inp.a.length = inp.M := rfl
    rw [hlen]
    have hlo := T_diag_ge_local cfg inp h hm inp.M inp.M (le_refl _)
    have hge := hall inp.M inp.M (by omega) (le_refl _)
    have hup := T_le_U_local cfg inp h hm inp.M k l hl
    have h1 := U_le_of_le cfg inp h k inp.M (by omega)
    have h2 := U_le_of_le cfg inp h l inp.M hl
    rw [← hsim] at hup
    linarith
  refine ⟨hval, ?_⟩
  simp only [runDist, hr, Result.sim?, Option.map_some, distance, h.b, hval]
  congr 1
  simp only [q_sub, q_div, q_mul, q_add, q_one, Prod.mk.injEq, true_and]
  have : selfScore cfg inp inp.a + selfScore cfg inp inp.a ≠ 0 := by
    intro hh; apply hne; linarith
  field_simp
  ring

/-! ### dialign mode

The match candidate of cell `(i,j)` is the whole diagonal run back to the border: the value of the border cell it
starts from plus the pair scores along the diagonal. -/

/-- a pair on a diagonal run never scores more than the two half self-scores -/
theorem diaPair_le (h : SelfPair inp) (hf : cfg.flavour = 0) (i j : Nat) :
    diaPair cfg inp (i + 1) (j + 1) ≤
      wOf cfg inp * inp.scorer (inp.a.getD i 0) (inp.a.getD i 0) / 2 +
        wOf cfg inp * inp.scorer (inp.a.getD j 0) (inp.a.getD j 0) / 2 := by
  have hsc : sc inp (i + 1) (j + 1) = inp.scorer (inp.a.getD j 0) (inp.a.getD i 0) := by
    simp [sc, h.b]
  have hd := h.dom (inp.a.getD j 0) (inp.a.getD i 0)
  have hdi := (h.dom (inp.a.getD i 0) (inp.a.getD i 0)).2
  have hdj := (h.dom (inp.a.getD j 0) (inp.a.getD j 0)).2
  have hfa := h.factor
  set s := inp.scorer (inp.a.getD j 0) (inp.a.getD i 0) with hs
  set di := inp.scorer (inp.a.getD i 0) (inp.a.getD i 0)
  set dj := inp.scorer (inp.a.getD j 0) (inp.a.getD j 0)
  have hm : (dj + di) / 2 ≥ 0 := by linarith
  have key : ∀ c : ℚ, 0 ≤ c → c ≤ inp.factor → s * (1 + c) ≤ (1 + inp.factor) * ((dj + di) / 2) := by
    intro c hc0 hc1
    by_cases hs0 : 0 ≤ s
    · have h1 : s * (1 + c) ≤ ((dj + di) / 2) * (1 + c) := mul_le_mul_of_nonneg_right hd.1 (by linarith)
      have h2 : ((dj + di) / 2) * (1 + c) ≤ ((dj + di) / 2) * (1 + inp.factor) := mul_le_mul_of_nonneg_left (by linarith) hm
      linarith
    · have h1 : s * (1 + c) ≤ 0 := mul_nonpos_of_nonpos_of_nonneg (by linarith) (by linarith)
      have h2 : 0 ≤ (1 + inp.factor) * ((dj + di) / 2) := mul_nonneg (by linarith) hm
      linarith
  have k1 := key inp.factor hfa (le_refl _)
  have k2 := key (inp.factor / 2) (by linarith) (by linarith)
  have k0 := key 0 (le_refl _) hfa
  unfold diaPair wOf
  simp only [hsc, ← hs, hf, ne_eq, not_true_eq_false, if_false, if_true, q_add, q_mul, q_sub, q_half, q_one, q_big]
  split_ifs <;> linarith

theorem diaPair_diag (h : SelfPair inp) (hf : cfg.flavour = 0) (i : Nat) :
    diaPair cfg inp (i + 1) (i + 1) = wOf cfg inp * inp.scorer (inp.a.getD i 0) (inp.a.getD i 0) := by
  have hsc : sc inp (i + 1) (i + 1) = inp.scorer (inp.a.getD i 0) (inp.a.getD i 0) := by
    simp [sc, h.b]
  have hp : pA inp (i + 1) = pB inp (i + 1) := by simp [pA, pB, h.pro]
  unfold diaPair wOf
  simp only [hsc, hp, hf, ne_eq, not_true_eq_false, if_false, if_true, q_add, q_mul, q_one]
  split_ifs <;> ring

/-- the diagonal run that ends in `(i+1, j+1)` and is `l+1` pairs long -/
theorem diaRun_le (h : SelfPair inp) (hf : cfg.flavour = 0) (i j : Nat) :
    ∀ (l : Nat) (acc : ℚ), l ≤ i → l ≤ j →
      diaRun cfg inp (i + 1) (j + 1) l acc ≤
        acc + (U cfg inp (i + 1) - U cfg inp (i - l)) + (U cfg inp (j + 1) - U cfg inp (j - l)) := by
  intro l
  induction l with
  | zero =>
    intro acc _ _
    simp only [diaRun, q_add, Nat.sub_zero]
    have := diaPair_le cfg inp h hf i j
    rw [U_succ cfg inp i, U_succ cfg inp j]
    linarith
  | succ l ih =>
    intro acc hi hj
    simp only [diaRun, q_add]
    have h1 : i + 1 - (l + 1) = (i - l - 1) + 1 := by omega
    have h2 : j + 1 - (l + 1) = (j - l - 1) + 1 := by omega
    rw [h1, h2]
    have hp := diaPair_le cfg inp h hf (i - l - 1) (j - l - 1)
    have := ih (acc + diaPair cfg inp (i - l - 1 + 1) (j - l - 1 + 1)) (by omega) (by omega)
    have hU1 : U cfg inp (i - l) = U cfg inp (i - l - 1) +
        wOf cfg inp * inp.scorer (inp.a.getD (i - l - 1) 0) (inp.a.getD (i - l - 1) 0) / 2 := by
      have hh := U_succ cfg inp (i - l - 1)
      rwa [show i - l - 1 + 1 = i - l by omega] at hh
    have hU2 : U cfg inp (j - l) = U cfg inp (j - l - 1) +
        wOf cfg inp * inp.scorer (inp.a.getD (j - l - 1) 0) (inp.a.getD (j - l - 1) 0) / 2 := by
      have hh := U_succ cfg inp (j - l - 1)
      rwa [show j - l - 1 + 1 = j - l by omega] at hh
    have e3 : i - (l + 1) = i - l - 1 := by omega
    have e4 : j - (l + 1) = j - l - 1 := by omega
    rw [e3, e4]
    linarith

theorem diaRun_diag (h : SelfPair inp) (hf : cfg.flavour = 0) (i : Nat) :
    ∀ (l : Nat) (acc : ℚ), l ≤ i →
      diaRun cfg inp (i + 1) (i + 1) l acc = acc + 2 * (U cfg inp (i + 1) - U cfg inp (i - l)) := by
  intro l
  induction l with
  | zero =>
    intro acc _
    simp only [diaRun, q_add, Nat.sub_zero]
    rw [diaPair_diag cfg inp h hf i, U_succ cfg inp i]
    ring
  | succ l ih =>
    intro acc hi
    simp only [diaRun, q_add]
    have h1 : i + 1 - (l + 1) = (i - l - 1) + 1 := by omega
    rw [h1, ih _ (by omega), diaPair_diag cfg inp h hf (i - l - 1)]
    have hU1 : U cfg inp (i - l) = U cfg inp (i - l - 1) +
        wOf cfg inp * inp.scorer (inp.a.getD (i - l - 1) 0) (inp.a.getD (i - l - 1) 0) / 2 := by
      have hh := U_succ cfg inp (i - l - 1)
      rwa [show i - l - 1 + 1 = i - l by omega] at hh
    have e3 : i - (l + 1) = i - l - 1 := by omega
    rw [e3, hU1]
    ring

theorem T_dia_border (M i j : Nat) (hj : j ≤ M) (h0 : i = 0 ∨ j = 0) :
    (T (dialignFill cfg inp) M i j).1 = 0 := by
  match i, j with
  | 0, 0 => rw [T_corner]; simp [dialignFill]
  | 0, j+1 => rw [T_row0 _ _ _ (by omega)]; simp [dialignFill]
  | i+1, 0 => rw [T_col0]; simp [dialignFill]
  | i+1, j+1 => omega

theorem dialignFill_inner (i j : Nat) (prev : List (List (Cell ℚ))) (up left ul : Cell ℚ) :
    (dialignFill cfg inp).inner i j prev up left ul =
      chooseGlobal cfg
        (if (cfg.secondary && inR inp (pB inp i) && !inR inp (pA inp j) && j != inp.M) = true then sub up.1 big else up.1)
        (diaRun cfg inp i j (min i j - 1) ((prev.getD (min i j - 1) []).getD (j - (min i j - 1) - 1) ((zero : ℚ), 0)).1)
        (if (cfg.secondary && inR inp (pA inp j) && !inR inp (pB inp i) && i != inp.N) = true then sub left.1 big else left.1) := rfl

/-- the cell the diagonal run of `(i+1, j+1)` starts from -/
theorem dia_start (M i j : Nat) (hj : j + 1 ≤ M) :
    (((rowsRev (dialignFill cfg inp) M i).getD (min (i + 1) (j + 1) - 1) []).getD (j + 1 - (min (i + 1) (j + 1) - 1) - 1) ((zero : ℚ), 0)).1 =
      (T (dialignFill cfg inp) M (i - min i j) (j - min i j)).1 := by
  have hk : min (i + 1) (j + 1) - 1 = min i j := by omega
  rw [hk]
  have hrow := rowsRev_getD (dialignFill cfg inp) M i (i - min i j) (by omega)
  have : i - (i - min i j) = min i j := by omega
  rw [this] at hrow
  rw [hrow]
  have hidx : j + 1 - min i j - 1 = j - min i j := by omega
  rw [hidx]
  unfold T
  have hlen := rowAt_length (dialignFill cfg inp) M (i - min i j)
  rw [List.getD_eq_getElem?_getD, List.getD_eq_getElem?_getD, List.getElem?_eq_getElem (by omega)]
  simp

theorem T_dia_inner (M i j : Nat) (hj : j + 1 ≤ M) :
    ∃ gapA gapB : ℚ, gapA ≤ (T (dialignFill cfg inp) M i (j + 1)).1 ∧ gapB ≤ (T (dialignFill cfg inp) M (i + 1) j).1 ∧
      T (dialignFill cfg inp) M (i + 1) (j + 1) =
        chooseGlobal cfg gapA
          (diaRun cfg inp (i + 1) (j + 1) (min i j) (T (dialignFill cfg inp) M (i - min i j) (j - min i j)).1) gapB := by
  rw [T_inner _ M i j (by omega)]
  have hst := dia_start cfg inp M i j hj
  have hk : min (i + 1) (j + 1) - 1 = min i j := by omega
  refine ⟨(if (cfg.secondary && inR inp (pB inp (i + 1)) && !inR inp (pA inp (j + 1)) && (j + 1) != inp.M) = true
            then sub (T (dialignFill cfg inp) M i (j + 1)).1 big else (T (dialignFill cfg inp) M i (j + 1)).1),
          (if (cfg.secondary && inR inp (pA inp (j + 1)) && !inR inp (pB inp (i + 1)) && (i + 1) != inp.N) = true
            then sub (T (dialignFill cfg inp) M (i + 1) j).1 big else (T (dialignFill cfg inp) M (i + 1) j).1), ?_, ?_, ?_⟩
  · split_ifs
    · simp only [q_sub, q_big]; linarith
    · exact le_refl _
  · split_ifs
    · simp only [q_sub, q_big]; linarith
    · exact le_refl _
  · rw [dialignFill_inner, hst, hk]

theorem T_le_U_dia (h : SelfPair inp) (hf : cfg.flavour = 0) (M : Nat) :
    ∀ i j, j ≤ M → (T (dialignFill cfg inp) M i j).1 ≤ U cfg inp i + U cfg inp j := by
  intro i
  induction i using Nat.strong_induction_on with
  | _ i ihi =>
    intro j
    induction j with
    | zero =>
      intro hj
      rw [T_dia_border cfg inp M i 0 hj (Or.inr rfl)]
      have h1 := U_nonneg cfg inp h i
      have h2 := U_nonneg cfg inp h 0
      linarith
    | succ j ihj =>
      intro hj
      match i, ihi, ihj with
      | 0, _, _ =>
        rw [T_dia_border cfg inp M 0 (j + 1) hj (Or.inl rfl)]
        have h1 := U_nonneg cfg inp h 0
        have h2 := U_nonneg cfg inp h (j + 1)
        linarith
      | i + 1, ihi, ihj =>
        obtain ⟨gapA, gapB, hA, hB, hT⟩ := T_dia_inner cfg inp M i j hj
        rw [hT]
        have hup := ihi i (by omega) (j + 1) hj
        have hleft := ihj (by omega)
        have hst := ihi (i - min i j) (by omega) (j - min i j) (by omega)
        have hrun := diaRun_le cfg inp h hf i j (min i j) (T (dialignFill cfg inp) M (i - min i j) (j - min i j)).1
          (by omega) (by omega)
        have hmi := U_mono cfg inp h i
        have hmj := U_mono cfg inp h j
        rcases chooseGlobal_ok cfg gapA
          (diaRun cfg inp (i + 1) (j + 1) (min i j) (T (dialignFill cfg inp) M (i - min i j) (j - min i j)).1) gapB with e | e | e <;>
          rw [e] <;> simp only <;> linarith

theorem T_diag_ge_dia (h : SelfPair inp) (hf : cfg.flavour = 0) (M : Nat) :
    ∀ i, i ≤ M → 2 * U cfg inp i ≤ (T (dialignFill cfg inp) M i i).1 := by
  intro i hi
  match i with
  | 0 =>
    rw [T_dia_border cfg inp M 0 0 hi (Or.inl rfl)]
    simp [U]
  | i + 1 =>
    obtain ⟨gapA, gapB, hA, hB, hT⟩ := T_dia_inner cfg inp M i i hi
    rw [hT]
    refine le_trans ?_ (chooseGlobal_max cfg _ _ _).2.1
    have hmin : min i i = i := by omega
    rw [hmin, diaRun_diag cfg inp h hf i i _ (le_refl _), Nat.sub_self, T_dia_border cfg inp M 0 0 (by omega) (Or.inl rfl)]
    simp [U]

/-- **C03, self-distance (dialign mode of the sound-class aligner, exact arithmetic)** -/
theorem C03_self_distance_dialign (h : SelfPair inp) (hm : cfg.mode = .dialign) (hf : cfg.flavour = 0) (ha : inp.a ≠ [])
    (hne : selfScore cfg inp inp.a ≠ 0) :
    ∃ cols, run cfg inp = .glob cols (selfScore cfg inp inp.a) ∧
      runDist cfg inp = some (selfScore cfg inp inp.a, 0) := by
  have hl : cfg.mode ≠ .local := by simp [hm]
  have hb : inp.b ≠ [] := by rw [h.b]; exact ha
  have hNM : inp.N = inp.M := by simp [Input.N, Input.M, h.b]
  obtain ⟨cols, sim, hrun, _⟩ := C01_rows cfg inp hl ha hb
  have hM : inp.M ≠ 0 := by simpa [Input.M] using ha
  have hN : inp.N ≠ 0 := by simpa [Input.N] using hb
  -- the similarity is the corner cell of the dialign table
  have hsim : sim = (T (dialignFill cfg inp) inp.M inp.N inp.M).1 := by
    simp only [run, hM, hN, hl, false_or, if_false] at hrun
    split at hrun
    · simp only [Result.glob.injEq] at hrun
      rw [← hrun.2, getCell_eq_T _ _ _ _ _ (Nat.le_refl _)]
      simp [fillOf, hm]
    · cases hrun
  have hval : sim = selfScore cfg inp inp.a := by
    rw [hsim, hNM, selfScore_eq cfg inp h]
    have hup := T_le_U_dia cfg inp h hf inp.M inp.M inp.M (le_refl _)
    have hlo := T_diag_ge_dia cfg inp h hf inp.M inp.M (le_refl _)
    have : inp.a.length = inp.M := rfl
    rw [this]
    linarith
  subst hval
  refine ⟨cols, hrun, ?_⟩
  simp only [runDist, hrun, Result.sim?, Option.map_some, distance, h.b]
  congr 1
  simp only [q_sub, q_div, q_mul, q_add, q_one, Prod.mk.injEq, true_and]
  have : selfScore cfg inp inp.a + selfScore cfg inp inp.a ≠ 0 := by
    intro hh; apply hne; linarith
  field_simp
  ring

/-! ### scorer tables of the shipped models (generated file `Verif/Generated/Scorers.lean`)

A table holds the scores multiplied by a common positive denominator `D` (all shipped scores are
binary fractions), row and column `x` belong to the `x`-th class of the model.  `diagDomTable` is
the decidable form of `DiagDom`, evaluated by `decide` on every generated table. -/

def tget (t : List (List Int)) (x y : Nat) : Int := (t.getD x []).getD y 0

def diagDomTable (t : List (List Int)) : Bool :=
  (List.range t.length).all fun x =>
    decide (0 ≤ tget t x x) && (List.range t.length).all fun y => decide (2 * tget t x y ≤ tget t x x + tget t y y) &&
      decide ((t.getD x []).length ≤ t.length)

/-- the scorer a table stands for -/
def scorerOf (t : List (List Int)) (D : Nat) (x y : Nat) : ℚ := (tget t x y : ℚ) / (D : ℚ)

theorem tget_out_row (t : List (List Int)) (x y : Nat) (hx : t.length ≤ x) : tget t x y = 0 := by
  unfold tget
  have : t.getD x [] = [] := by simp [List.getD_eq_getElem?_getD, List.getElem?_eq_none hx]
  rw [this]
  simp

theorem diagDom_of_table (t : List (List Int)) (D : Nat) (hD : 0 < D) (h : diagDomTable t = true) :
    DiagDom (scorerOf t D) := by
  unfold diagDomTable at h
  simp only [List.all_eq_true, List.mem_range, Bool.and_eq_true, decide_eq_true_eq] at h
  have hDq : (0 : ℚ) < (D : ℚ) := by exact_mod_cast hD
  -- integer facts for every pair
  have hdiag : ∀ x, 0 ≤ tget t x x := by
    intro x
    by_cases hx : x < t.length
    · exact (h x hx).1
    · rw [tget_out_row t x x (by omega)]
  have hcol : ∀ x y, t.length ≤ y → tget t x y = 0 := by
    intro x y hy
    by_cases hx : x < t.length
    · have := ((h x hx).2 0 (by omega)).2
      unfold tget
      have hlen : (t.getD x []).length ≤ y := by omega
      generalize t.getD x [] = row at hlen
      simp [List.getD_eq_getElem?_getD, List.getElem?_eq_none hlen]
    · exact tget_out_row t x y (by omega)
  have hpair : ∀ x y, 2 * tget t x y ≤ tget t x x + tget t y y := by
    intro x y
    by_cases hx : x < t.length
    · by_cases hy : y < t.length
      · exact ((h x hx).2 y hy).1
      · rw [hcol x y (by omega)]
        have := hdiag x
        have := hdiag y
        omega
    · rw [tget_out_row t x y (by omega)]
      have := hdiag x
      have := hdiag y
      omega
  intro x y
  unfold scorerOf
  constructor
  · have h1 : (2 * tget t x y : ℚ) ≤ (tget t x x : ℚ) + (tget t y y : ℚ) := by exact_mod_cast hpair x y
    rw [← add_div, div_div, div_le_div_iff₀ hDq (by positivity)]
    nlinarith
  · have h1 : (0 : ℚ) ≤ (tget t x x : ℚ) := by exact_mod_cast hdiag x
    exact div_nonneg h1 (le_of_lt hDq)

end Verif.Align
