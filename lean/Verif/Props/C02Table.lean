import Verif.Lemmas.RescoreTable
import Verif.Props.C02
set_option linter.unusedSimpArgs false
set_option linter.unusedSectionVars false
/-!
# C02 over an observed table (tie (a))

A decidable check that an observed `(matrix, traceback)` pair is a legal table of the scoring
scheme – every inner cell is **one of** the candidates computed from its observed neighbours,
borders as initialised – and the theorem that for every table passing the check the value of the
cell the traceback starts from equals the independent re-scoring of the traceback's columns.
-/
namespace Verif.Align
open ScoreOps
variable {S : Type} [ScoreOps S] [Inhabited S] [DecidableEq S]

def tableOkGb (K : AffKernel S) (T : Nat → Nat → Cell S) (N M : Nat) : Bool :=
  decide (T 0 0 = K.corner) &&
  (List.range M).all (fun j => decide (T 0 (j+1) = K.row0 (j+1) (T 0 j))) &&
  (List.range N).all (fun i => decide (T (i+1) 0 = K.col0 (i+1) (T i 0))) &&
  (List.range N).all (fun i => (List.range M).all fun j =>
    decide (T (i+1) (j+1) = (K.candUp (i+1) (j+1) (T i (j+1)), 3)) ||
    decide (T (i+1) (j+1) = (K.candDiag (i+1) (j+1) (T i j).1, 1)) ||
    decide (T (i+1) (j+1) = (K.candLeft (i+1) (j+1) (T (i+1) j), 2)))

def tableOkLb (K : AffKernel S) (T : Nat → Nat → Cell S) (N M : Nat) : Bool :=
  (List.range (M+1)).all (fun j => decide (T 0 j = (zero, 0))) &&
  (List.range (N+1)).all (fun i => decide (T i 0 = (zero, 0))) &&
  (List.range N).all (fun i => (List.range M).all fun j =>
    decide (T (i+1) (j+1) = (K.candUp (i+1) (j+1) (T i (j+1)), 3)) ||
    decide (T (i+1) (j+1) = (K.candDiag (i+1) (j+1) (T i j).1, 1)) ||
    decide (T (i+1) (j+1) = (K.candLeft (i+1) (j+1) (T (i+1) j), 2)) ||
    decide (T (i+1) (j+1) = (zero, 0)))

theorem tableOkGb_sound (K : AffKernel S) (T : Nat → Nat → Cell S) (N M : Nat)
    (h : tableOkGb K T N M = true) : TableOkG K T N M := by
  simp only [tableOkGb, Bool.and_eq_true, decide_eq_true_eq, List.all_eq_true, List.mem_range,
    Bool.or_eq_true] at h
  obtain ⟨⟨⟨h1, h2⟩, h3⟩, h4⟩ := h
  exact ⟨h1, h2, h3, fun i j hi hj => by
    rcases h4 i hi j hj with (e | e) | e
    · exact Or.inl e
    · exact Or.inr (Or.inl e)
    · exact Or.inr (Or.inr e)⟩

theorem tableOkLb_sound (K : AffKernel S) (T : Nat → Nat → Cell S) (N M : Nat)
    (h : tableOkLb K T N M = true) : TableOkL K T N M := by
  simp only [tableOkLb, Bool.and_eq_true, decide_eq_true_eq, List.all_eq_true, List.mem_range,
    Bool.or_eq_true] at h
  obtain ⟨⟨h1, h2⟩, h4⟩ := h
  exact ⟨fun j hj => h1 j (by omega), fun i hi => h2 i (by omega), fun i j hi hj => by
    rcases h4 i hi j hj with ((e | e) | e) | e
    · exact Or.inl e
    · exact Or.inr (Or.inl e)
    · exact Or.inr (Or.inr (Or.inl e))
    · exact Or.inr (Or.inr (Or.inr e))⟩

/-- **C02 over an observed table, global / overlap.**  Whatever filled the table: if it passes the
decidable check for the scheme of `cfg`, the traceback loop succeeds and the value in the last
cell is the independent re-scoring of the returned columns. -/
theorem C02_of_table_global (cfg : Cfg) (inp : Input S) (hm : cfg.mode = .global ∨ cfg.mode = .overlap)
    (T : Nat → Nat → Cell S) (h : tableOkGb (kernelOf cfg inp) T inp.N inp.M = true) :
    ∃ cols, tbGlobal (fun i j => (T i j).2) inp.a inp.b inp.N inp.M [] = some cols ∧
      (T inp.N inp.M).1 = rescoreCols cfg inp cols := by
  have hl : cfg.mode ≠ .local := by rcases hm with h | h <;> simp [h]
  have hd : cfg.mode ≠ .dialign := by rcases hm with h | h <;> simp [h]
  have hrow : ∀ j c, ((kernelOf cfg inp).row0 j c).2 ≠ 3 ∧ ((kernelOf cfg inp).row0 j c).2 ≠ 1 := by
    intro j c
    have := fill_row0_move cfg inp hl j c
    rw [fillOf_aff cfg inp hd] at this
    simp only [AffKernel.toFill] at this
    omega
  have hcol : ∀ i c, ((kernelOf cfg inp).col0 i c).2 = 3 := by
    intro i c
    have := fill_col0_move cfg inp hl i c
    rw [fillOf_aff cfg inp hd] at this
    simpa only [AffKernel.toFill] using this
  obtain ⟨cols, h1, h2⟩ := rescore_tbGlobal_of_table (kernelOf cfg inp) hrow hcol inp.a inp.b inp.N inp.M
    (Nat.le_refl _) (Nat.le_refl _) T (tableOkGb_sound _ T _ _ h) inp.N inp.M [] (Nat.le_refl _) (Nat.le_refl _)
  exact ⟨cols, by simpa using h1, by simp [rescoreCols, h2]⟩

/-- **C02 over an observed table, local mode**, for any start cell inside the table. -/
theorem C02_of_table_local (cfg : Cfg) (inp : Input S)
    (T : Nat → Nat → Cell S) (h : tableOkLb (kernelOf cfg inp) T inp.N inp.M = true)
    (k l : Nat) (hk : k ≤ inp.N) (hl : l ≤ inp.M) :
    ∃ i0 j0 cols, tbLocal (fun i j => (T i j).2) inp.a inp.b k l [] = some (i0, j0, cols) ∧
      (T k l).1 = rescoreLocal cfg inp i0 j0 cols := by
  obtain ⟨i0, j0, cols, h1, h2⟩ := rescore_tbLocal_of_table (kernelOf cfg inp) inp.a inp.b inp.N inp.M
    (Nat.le_refl _) (Nat.le_refl _) T (tableOkLb_sound _ T _ _ h) k l [] hk hl
  exact ⟨i0, j0, cols, by simpa using h1, by simp [rescoreLocal, h2]⟩

end Verif.Align
