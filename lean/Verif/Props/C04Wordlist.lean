import Verif.Props.C04Update
set_option linter.unusedSimpArgs false
set_option linter.unusedVariables false
set_option linter.unusedSectionVars false
/-!
# C04 — the wordlist clause: every cognate set aligned, the rows written into one column

`Alignments.align` builds one multiple alignment per cognate set with two or more members (each of them
is a `Multiple` object: C04's first sentence, `C04_progressive` … `C04_update`) and `_msa2col` writes the
rows into the alignment column.  `C04_wordlist`: if every set lists as many rows as members, its rows
have one length and row `i` de-gaps to the segments of member `i`, and no word is a member twice, then
in the written column

* the members of a set all carry rows of that set's length,
* the entry of every member de-gaps to exactly the word's segments,
* a word that is in no such set keeps its segments unchanged.
-/
namespace Verif.MSA
variable {T : Type} [DecidableEq T]

/-- all (id, row) assignments, in the order they are made -/
def colAssigns (msas : List (List Nat × List (List T))) : List (Nat × List T) := msas.flatMap fun m => m.1.zip m.2

omit [DecidableEq T] in
theorem mem_colAssigns (msas : List (List Nat × List (List T))) (a : Nat × List T) :
    a ∈ colAssigns msas ↔ ∃ m ∈ msas, ∃ (i : Nat) (h1 : i < m.1.length) (h2 : i < m.2.length), a = (m.1[i], m.2[i]) := by
  simp only [colAssigns, List.mem_flatMap]
  constructor
  · rintro ⟨m, hm, ha⟩
    obtain ⟨i, hi, hai⟩ := List.mem_iff_getElem.mp ha
    simp only [List.length_zip, Nat.lt_min] at hi
    rw [List.getElem_zip] at hai
    exact ⟨m, hm, i, hi.1, hi.2, hai.symm⟩
  · rintro ⟨m, hm, i, h1, h2, rfl⟩
    refine ⟨m, hm, ?_⟩
    rw [List.mem_iff_getElem]
    exact ⟨i, by simp only [List.length_zip, Nat.lt_min]; exact ⟨h1, h2⟩, by rw [List.getElem_zip]⟩

omit [DecidableEq T] in
/-- the column entry of a word: the row assigned to it if it is assigned exactly one row, its segments if none -/
theorem msa2col_entry (ids : List Nat) (tokens : Nat → List T) (msas : List (List Nat × List (List T)))
    (k : Nat) (hk : k ∈ ids) :
    (∀ row, (∀ a ∈ colAssigns msas, a.1 = k → a.2 = row) → (k, row) ∈ colAssigns msas → (k, row) ∈ msa2col ids tokens msas) ∧
    ((∀ a ∈ colAssigns msas, a.1 ≠ k) → (k, tokens k) ∈ msa2col ids tokens msas) := by
  constructor
  · intro row huniq hmem
    simp only [msa2col, List.mem_map]
    refine ⟨k, hk, ?_⟩
    change (k, ((((colAssigns msas).reverse.find? fun a => a.1 == k).map (·.2)).getD (tokens k))) = (k, row)
    cases hf : (colAssigns msas).reverse.find? (fun a => a.1 == k) with
    | none =>
      exfalso
      have := List.find?_eq_none.mp hf _ (List.mem_reverse.mpr hmem)
      simp at this
    | some a =>
      have ha1 : a.1 = k := by have := List.find?_some hf; simpa using this
      have hain : a ∈ colAssigns msas := List.mem_reverse.mp (List.mem_of_find?_eq_some hf)
      simp [huniq a hain ha1]
  · intro hnone
    simp only [msa2col, List.mem_map]
    refine ⟨k, hk, ?_⟩
    change (k, ((((colAssigns msas).reverse.find? fun a => a.1 == k).map (·.2)).getD (tokens k))) = (k, tokens k)
    cases hf : (colAssigns msas).reverse.find? (fun a => a.1 == k) with
    | none => simp
    | some a =>
      exfalso
      have ha1 : a.1 = k := by have := List.find?_some hf; simpa using this
      exact hnone a (List.mem_reverse.mp (List.mem_of_find?_eq_some hf)) ha1

/-- what is assumed of the per-set alignments (each is the result of a `Multiple` run: C04's first sentence) -/
structure SetsOk (gap : T) (tokens : Nat → List T) (msas : List (List Nat × List (List T))) : Prop where
  sameLen : ∀ m ∈ msas, m.1.length = m.2.length
  rect : ∀ m ∈ msas, ∃ w, ∀ r ∈ m.2, r.length = w
  degap : ∀ m ∈ msas, ∀ (i : Nat) (h1 : i < m.1.length) (h2 : i < m.2.length), (m.2[i]).filter (· ≠ gap) = tokens m.1[i]
  once : ∀ a ∈ colAssigns msas, ∀ b ∈ colAssigns msas, a.1 = b.1 → a = b        -- no word is a member twice

/-- **C04, the wordlist clause** -/
theorem C04_wordlist (gap : T) (ids : List Nat) (tokens : Nat → List T) (msas : List (List Nat × List (List T)))
    (hok : SetsOk gap tokens msas) :
    (∀ m ∈ msas, ∃ w, ∀ (i : Nat) (h1 : i < m.1.length) (h2 : i < m.2.length), m.1[i] ∈ ids →
      (m.1[i], m.2[i]) ∈ msa2col ids tokens msas ∧ (m.2[i]).length = w ∧ (m.2[i]).filter (· ≠ gap) = tokens m.1[i]) ∧
    (∀ k ∈ ids, (∀ m ∈ msas, k ∉ m.1) → (k, tokens k) ∈ msa2col ids tokens msas) := by
  constructor
  · intro m hm
    obtain ⟨w, hw⟩ := hok.rect m hm
    refine ⟨w, ?_⟩
    intro i h1 h2 hk
    have hmem : (m.1[i], m.2[i]) ∈ colAssigns msas := (mem_colAssigns msas _).mpr ⟨m, hm, i, h1, h2, rfl⟩
    refine ⟨?_, hw _ (List.getElem_mem h2), hok.degap m hm i h1 h2⟩
    refine (msa2col_entry ids tokens msas m.1[i] hk).1 m.2[i] ?_ hmem
    intro a ha ha1
    have := hok.once a ha (m.1[i], m.2[i]) hmem ha1
    rw [this]
  · intro k hk hnone
    refine (msa2col_entry ids tokens msas k hk).2 ?_
    intro a ha hak
    obtain ⟨m, hm, i, h1, h2, rfl⟩ := (mem_colAssigns msas a).mp ha
    exact hnone m hm (hak ▸ List.getElem_mem h1)

/-- two sets of two words and a singleton word: the column holds the aligned rows and the untouched segments -/
example : msa2col [1, 2, 3, 5, 8] (fun k => if k = 8 then ['a', 'b'] else [])
    [([1, 3], [['h', 'a', 'n', 't'], ['h', 'a', 'n', 'd']]), ([2, 5], [['f', 'u', 's', '-'], ['f', 'u', '-', 't']])] =
    [(1, ['h', 'a', 'n', 't']), (2, ['f', 'u', 's', '-']), (3, ['h', 'a', 'n', 'd']), (5, ['f', 'u', '-', 't']), (8, ['a', 'b'])] := by
  decide

end Verif.MSA
