import Verif.Props.C05Order
import Verif.Props.C03Edit
import Verif.Props.C06
set_option linter.unusedSectionVars false
set_option linter.unusedSimpArgs false
set_option linter.unusedVariables false
/-!
# C06 — the two "consequently" clauses

* When "distance ≤ threshold" is an equivalence on the words of a concept (the consonant-class
  method: distance 0 for equal first-two-consonant-class keys, 1 otherwise), single **and** complete
  linkage return exactly its classes.
* For single linkage over the matrix computed from the edit distance, the clusters are the connected
  components of the graph joining words whose Levenshtein distance – the minimum cost over all edit
  scripts, `C03_edit_eq_lev` – normalised in the same way is `≤ t`.
-/
namespace Verif.Cluster
open Verif.Align ScoreOps ScoreLaws
variable {S : Type} [ScoreOps S] [LinearOrder S] [ScoreLaws S]

theorem connected_of_equiv (M : Nat → Nat → S) (t : S)
    (hsymm : ∀ x y, M x y ≤ t → M y x ≤ t) (htrans : ∀ x y z, M x y ≤ t → M y z ≤ t → M x z ≤ t)
    {x y : Nat} (h : Connected M t x y) : x = y ∨ M x y ≤ t := by
  induction h with
  | refl => exact Or.inl rfl
  | @tail b c _ hbc ih =>
    have hbc' : M b c ≤ t := by
      rcases hbc with h | h
      · exact h
      · exact hsymm _ _ h
    rcases ih with rfl | ih
    · exact Or.inr hbc'
    · exact Or.inr (htrans _ _ _ ih hbc')

/-- **equivalence matrices, single linkage**: two different items share a cluster iff they are related -/
theorem C06_classes_single (cfg : Cfg) (hl : cfg.link = .single) (hu : cfg.unordered = false)
    (M : Nat → Nat → S) (t : S) (n : Nat)
    (hsymm : ∀ x y, M x y ≤ t → M y x ≤ t) (htrans : ∀ x y z, M x y ≤ t → M y z ≤ t → M x z ≤ t) :
    (∀ c ∈ flatCluster cfg M t n, ∀ x ∈ c.2, ∀ y ∈ c.2, x ≠ y → M x y ≤ t) ∧
    (∀ p q (hp : p < (flatCluster cfg M t n).length) (hq : q < (flatCluster cfg M t n).length), p ≠ q →
      ∀ x ∈ (flatCluster cfg M t n)[p].2, ∀ y ∈ (flatCluster cfg M t n)[q].2, ¬ M x y ≤ t) := by
  constructor
  · intro c hc x hx y hy hxy
    rcases connected_of_equiv M t hsymm htrans (C05_single_connected cfg hl M t n c hc x hx y hy) with h | h
    · exact absurd h hxy
    · exact h
  · intro p q hp hq hne x hx y hy h
    have := C05_single_separated cfg hl hu M t n p q hp hq hne x y hx hy
    order

/-- **equivalence matrices, complete linkage** (symmetric matrix) -/
theorem C06_classes_complete (cfg : Cfg) (hl : cfg.link = .complete) (hu : cfg.unordered = false)
    (M : Nat → Nat → S) (hsym : ∀ i j, M i j = M j i) (t : S) (n : Nat)
    (hrefl : ∀ x, M x x ≤ t) (htrans : ∀ x y z, M x y ≤ t → M y z ≤ t → M x z ≤ t) :
    (∀ c ∈ flatCluster cfg M t n, ∀ x ∈ c.2, ∀ y ∈ c.2, x ≠ y → M x y ≤ t) ∧
    (∀ p q (hp : p < (flatCluster cfg M t n).length) (hq : q < (flatCluster cfg M t n).length), p ≠ q →
      ∀ x ∈ (flatCluster cfg M t n)[p].2, ∀ y ∈ (flatCluster cfg M t n)[q].2, ¬ M x y ≤ t) := by
  have hdiam := C05_complete_diameter cfg hl M hsym t n
  refine ⟨hdiam, ?_⟩
  intro p q hp hq hne x hx y hy hxy
  have hstop := C05_stop cfg hu M t n p q hp hq hne
  rw [hl] at hstop
  simp only [linkage] at hstop
  have hN := nonEmpty_flatCluster cfg M t n
  have hcne := cross_ne_nil M _ _ (hN _ (List.getElem_mem hp)) (hN _ (List.getElem_mem hq))
  obtain ⟨hmem, _⟩ := listMax_spec _ hcne
  obtain ⟨u, hu', v, hv, huv⟩ := (mem_cross M _ _ _).mp hmem
  -- u ~ x (same cluster p), x ~ y, y ~ v (same cluster q)  ⇒  u ~ v, against the stop condition
  have within : ∀ (k : Nat) (hk : k < (flatCluster cfg M t n).length) (a b : Nat),
      a ∈ (flatCluster cfg M t n)[k].2 → b ∈ (flatCluster cfg M t n)[k].2 → M a b ≤ t := by
    intro k hk a b ha hb
    by_cases hab : a = b
    · subst hab; exact hrefl a
    · exact hdiam _ (List.getElem_mem hk) a ha b hb hab
  have h1 := within p hp u x hu' hx
  have h2 := within q hq y v hy hv
  have := htrans _ _ _ (htrans _ _ _ h1 hxy) h2
  rw [huv] at hstop
  order

/-- **edit distance with single linkage**: with the matrix the code computes – any function `f` of
the edit distance and the two lengths – the clusters are connected in, and separated by, the graph
defined through the minimum cost over all edit scripts. -/
theorem C06_editdist_single {α : Type} [DecidableEq α] (cfg : Cfg) (hl : cfg.link = .single)
    (hu : cfg.unordered = false) (w : Nat → List α) (f : Nat → Nat → Nat → S) (t : S) (n : Nat)
    (d : Nat → Nat → Nat)
    (hd : ∀ i j, (∀ ms, IsPath (w j).length (w i).length ms → d i j ≤ editCost (w i) (w j) ms 0 0) ∧
                 (∃ ms, IsPath (w j).length (w i).length ms ∧ editCost (w i) (w j) ms 0 0 = d i j)) :
    let M := fun i j => f (editDist (w i) (w j)) (w i).length (w j).length
    let G := fun i j => f (d i j) (w i).length (w j).length
    (∀ c ∈ flatCluster cfg M t n, ∀ x ∈ c.2, ∀ y ∈ c.2, Connected G t x y) ∧
    (∀ p q (hp : p < (flatCluster cfg M t n).length) (hq : q < (flatCluster cfg M t n).length), p ≠ q →
      ∀ x ∈ (flatCluster cfg M t n)[p].2, ∀ y ∈ (flatCluster cfg M t n)[q].2, t < G x y) := by
  intro M G
  have hMG : M = G := by
    funext i j
    simp only [M, G]
    congr 1
    obtain ⟨h1, ms, hp, hc⟩ := hd i j
    obtain ⟨e1, ms', hp', hc'⟩ := C03_edit_eq_lev (w i) (w j)
    have a := h1 ms' hp'
    have b := e1 ms hp
    omega
  rw [← hMG]
  exact ⟨C05_single_connected cfg hl M t n,
    fun p q hp hq hne x hx y hy => C05_single_separated cfg hl hu M t n p q hp hq hne x y hx hy⟩

end Verif.Cluster

/-! ### C10, cognate-set clause: coarser clusters per concept give coarser cognate sets -/
namespace Verif.Cognates

/-- the id of word `i` of concept `c` -/
def idAt (k : Nat) (parts : List (List Nat × List Nat)) (c i : Nat) : Option Nat :=
  ((glue k parts)[c]?.bind (·[i]?)).map (·.2)

/-- every concept's ids are its labels shifted by one offset -/
theorem glue_getElem (parts : List (List Nat × List Nat)) : ∀ (k c : Nat),
    ∃ kc, (glue k parts)[c]? = parts[c]?.map fun p => p.1.zip (p.2.map (· + kc)) := by
  induction parts with
  | nil => intro k c; exact ⟨0, by simp [glue]⟩
  | cons p rest ih =>
    intro k c
    obtain ⟨idx, labs⟩ := p
    cases c with
    | zero => exact ⟨k, by simp [glue]⟩
    | succ c =>
      obtain ⟨kc, h⟩ := ih ((labs.map (· + k)).foldl max 0) c
      exact ⟨kc, by simpa [glue] using h⟩

theorem idAt_eq_iff (parts : List (List Nat × List Nat)) (hwf : WF parts) (k c i j : Nat) (p : List Nat × List Nat)
    (hp : parts[c]? = some p) (hi : i < p.1.length) (hj : j < p.1.length) :
    (idAt k parts c i = idAt k parts c j) ↔ p.2[i]? = p.2[j]? := by
  obtain ⟨kc, h⟩ := glue_getElem parts k c
  have hlen := (hwf p (List.mem_of_getElem? hp)).1
  have hi2 : i < p.2.length := hlen ▸ hi
  have hj2 : j < p.2.length := hlen ▸ hj
  simp only [idAt, h, hp, Option.map_some, Option.bind_some, List.getElem?_zip_eq_some]
  rw [List.getElem?_eq_getElem (by simp [hlen]; omega : i < (p.1.zip (p.2.map (· + kc))).length),
    List.getElem?_eq_getElem (by simp [hlen]; omega : j < (p.1.zip (p.2.map (· + kc))).length)]
  simp only [Option.map_some, Option.some.injEq, List.getElem_zip, List.getElem_map,
    List.getElem?_eq_getElem hi2, List.getElem?_eq_getElem hj2]
  omega

theorem idAt_mem (parts : List (List Nat × List Nat)) (k c i : Nat) (v : Nat) (h : idAt k parts c i = some v) :
    ∃ C e, (glue k parts)[c]? = some C ∧ e ∈ C ∧ e.2 = v := by
  unfold idAt at h
  cases hC : (glue k parts)[c]? with
  | none => simp [hC] at h
  | some C =>
    simp only [hC, Option.bind_some, Option.map_eq_some_iff] at h
    obtain ⟨e, he, rfl⟩ := h
    exact ⟨C, e, rfl, List.mem_of_getElem? he, rfl⟩

/-- **C10 (cognate sets)**: if, concept by concept, the clustering at the higher threshold is coarser
(equal labels stay equal – `C10_refines` for every linkage), then two words that share a cognate id at
the lower threshold share one at the higher threshold: sets only merge. -/
theorem C10_cognate_sets (parts1 parts2 : List (List Nat × List Nat)) (hwf1 : WF parts1) (hwf2 : WF parts2)
    (hsame : parts1.map (·.1) = parts2.map (·.1))
    (href : ∀ (c : Nat) (p1 p2 : List Nat × List Nat), parts1[c]? = some p1 → parts2[c]? = some p2 →
      ∀ (i j : Nat), i < p1.1.length → j < p1.1.length →
      p1.2[i]? = p1.2[j]? → p2.2[i]? = p2.2[j]?)
    (k1 k2 c c' i j : Nat) (p1 p1' : List Nat × List Nat) (hp1 : parts1[c]? = some p1) (hp1' : parts1[c']? = some p1')
    (hi : i < p1.1.length) (hj : j < p1'.1.length)
    (heq : idAt k1 parts1 c i = idAt k1 parts1 c' j) :
    idAt k2 parts2 c i = idAt k2 parts2 c' j := by
  -- the two words belong to one concept
  have hcc : c = c' := by
    obtain ⟨kc, h⟩ := glue_getElem parts1 k1 c
    obtain ⟨kc', h'⟩ := glue_getElem parts1 k1 c'
    have hl := (hwf1 p1 (List.mem_of_getElem? hp1)).1
    have hl' := (hwf1 p1' (List.mem_of_getElem? hp1')).1
    have hsome : ∃ v, idAt k1 parts1 c i = some v := by
      simp only [idAt, h, hp1, Option.map_some, Option.bind_some]
      rw [List.getElem?_eq_getElem (by simp [hl]; omega)]
      exact ⟨_, rfl⟩
    obtain ⟨v, hv⟩ := hsome
    obtain ⟨C, e, hC, he, hev⟩ := idAt_mem parts1 k1 c i v hv
    obtain ⟨C', e', hC', he', hev'⟩ := idAt_mem parts1 k1 c' j v (heq ▸ hv)
    by_cases hlt : c < c'
    · have := C06_no_cross_concept_all parts1 hwf1 k1 c c' hlt C C' hC hC' e he e' he'; omega
    · by_cases hgt : c' < c
      · have := C06_no_cross_concept_all parts1 hwf1 k1 c' c hgt C' C hC' hC e' he' e he; omega
      · omega
  subst hcc
  have : p1 = p1' := by rw [hp1] at hp1'; exact Option.some.inj hp1'
  subst this
  have hlab := (idAt_eq_iff parts1 hwf1 k1 c i j p1 hp1 hi hj).mp heq
  have hidx : (parts2[c]?).map (·.1) = some p1.1 := by
    have := congrArg (fun l => l[c]?) hsame
    simpa [List.getElem?_map, hp1] using this.symm
  cases hp2 : parts2[c]? with
  | none => simp [hp2] at hidx
  | some p2 =>
    simp only [hp2, Option.map_some, Option.some.injEq] at hidx
    exact (idAt_eq_iff parts2 hwf2 k2 c i j p2 hp2 (hidx ▸ hi) (hidx ▸ hj)).mpr
      (href c p1 p2 hp1 hp2 i j hi hj hlab)

end Verif.Cognates
