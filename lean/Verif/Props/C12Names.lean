import Verif.Model.Names
import Mathlib.Tactic.Order
set_option linter.unusedSimpArgs false
set_option linter.unusedVariables false
/-!
# C12 — languages and concepts are the distinct values in case-insensitive alphabetical order

`C12_names`: the list `distinctSorted values` contains exactly the values that occur, each once, and is
sorted by `(lower-cased name, name)` – the case-insensitive alphabetical order, names that coincide
after lower-casing ordered by the names themselves.  `C12_names_order_free`: it is the same list for
every order (and multiplicity) in which the values are enumerated – the rows may come in any order, a
Python `set` may iterate in any order (this is also what C18 needs of `rows` / `cols`).
-/
namespace Verif.Names

/-! ### the order on code-point lists -/

theorem lexLt_irrefl : ∀ a, lexLt a a = false
  | [] => rfl
  | x :: xs => by simp [lexLt, lexLt_irrefl xs]

theorem lexLt_trans : ∀ a b c, lexLt a b = true → lexLt b c = true → lexLt a c = true
  | [], [], _, h, _ => by simp [lexLt] at h
  | [], _ :: _, [], _, h => by simp [lexLt] at h
  | [], _ :: _, _ :: _, _, _ => by simp [lexLt]
  | _ :: _, [], _, h, _ => by simp [lexLt] at h
  | _ :: _, _ :: _, [], _, h => by simp [lexLt] at h
  | a :: as, b :: bs, c :: cs, h1, h2 => by
    simp only [lexLt, Bool.or_eq_true, decide_eq_true_eq, Bool.and_eq_true, beq_iff_eq] at h1 h2 ⊢
    rcases h1 with h1 | ⟨h1, h1'⟩ <;> rcases h2 with h2 | ⟨h2, h2'⟩
    · left; omega
    · left; omega
    · left; omega
    · right; exact ⟨by omega, lexLt_trans as bs cs h1' h2'⟩

theorem lexLt_tri : ∀ a b, lexLt a b = true ∨ a = b ∨ lexLt b a = true
  | [], [] => Or.inr (Or.inl rfl)
  | [], _ :: _ => Or.inl (by simp [lexLt])
  | _ :: _, [] => Or.inr (Or.inr (by simp [lexLt]))
  | a :: as, b :: bs => by
    simp only [lexLt, Bool.or_eq_true, decide_eq_true_eq, Bool.and_eq_true, beq_iff_eq, List.cons.injEq]
    rcases Nat.lt_trichotomy a b with h | h | h
    · exact Or.inl (Or.inl h)
    · rcases lexLt_tri as bs with h' | h' | h'
      · exact Or.inl (Or.inr ⟨h, h'⟩)
      · exact Or.inr (Or.inl ⟨h, h'⟩)
      · exact Or.inr (Or.inr (Or.inr ⟨h.symm, h'⟩))
    · exact Or.inr (Or.inr (Or.inl h))

theorem lexLt_asymm (a b : List Nat) (h : lexLt a b = true) : lexLt b a = false := by
  cases hb : lexLt b a with
  | false => rfl
  | true => have := lexLt_trans a b a h hb; rw [lexLt_irrefl] at this; cases this

/-! ### the order on (lower, name) pairs -/

theorem pairLt_irrefl (x : Name) : pairLt x x = false := by simp [pairLt, lexLt_irrefl]

theorem pairLt_trans (x y z : Name) (h1 : pairLt x y = true) (h2 : pairLt y z = true) : pairLt x z = true := by
  simp only [pairLt, Bool.or_eq_true, Bool.and_eq_true, beq_iff_eq] at h1 h2 ⊢
  rcases h1 with h1 | ⟨e1, h1⟩ <;> rcases h2 with h2 | ⟨e2, h2⟩
  · exact Or.inl (lexLt_trans _ _ _ h1 h2)
  · exact Or.inl (e2 ▸ h1)
  · exact Or.inl (e1 ▸ h2)
  · exact Or.inr ⟨e1.trans e2, lexLt_trans _ _ _ h1 h2⟩

theorem pairLt_tri (x y : Name) : pairLt x y = true ∨ x = y ∨ pairLt y x = true := by
  simp only [pairLt, Bool.or_eq_true, Bool.and_eq_true, beq_iff_eq]
  rcases lexLt_tri x.1 y.1 with h | h | h
  · exact Or.inl (Or.inl h)
  · rcases lexLt_tri x.2 y.2 with h' | h' | h'
    · exact Or.inl (Or.inr ⟨h, h'⟩)
    · exact Or.inr (Or.inl (Prod.ext h h'))
    · exact Or.inr (Or.inr (Or.inr ⟨h.symm, h'⟩))
  · exact Or.inr (Or.inr (Or.inl h))

theorem pairLe_total (x y : Name) : (pairLe x y || pairLe y x) = true := by
  simp only [pairLe, Bool.or_eq_true, Bool.not_eq_true']
  cases h : pairLt y x with
  | false => exact Or.inl rfl
  | true =>
    right
    cases h' : pairLt x y with
    | false => rfl
    | true => have := pairLt_trans _ _ _ h h'; rw [pairLt_irrefl] at this; cases this

theorem pairLe_trans (x y z : Name) (h1 : pairLe x y = true) (h2 : pairLe y z = true) : pairLe x z = true := by
  simp only [pairLe, Bool.not_eq_true'] at h1 h2 ⊢
  cases h : pairLt z x with
  | false => rfl
  | true =>
    exfalso
    rcases pairLt_tri x y with h' | h' | h'
    · have := pairLt_trans _ _ _ h h'; rw [h2] at this; cases this
    · subst h'; rw [h2] at h; cases h
    · rw [h1] at h'; cases h'

theorem pairLe_antisymm (x y : Name) (h1 : pairLe x y = true) (h2 : pairLe y x = true) : x = y := by
  simp only [pairLe, Bool.not_eq_true'] at h1 h2
  rcases pairLt_tri x y with h | h | h
  · rw [h2] at h; cases h
  · exact h
  · rw [h1] at h; cases h

/-! ### distinct values -/

theorem mem_nub : ∀ (l : List Name) (x : Name), x ∈ nub l ↔ x ∈ l
  | [], x => by simp [nub]
  | y :: ys, x => by
    simp only [nub, List.mem_cons, List.mem_filter, bne_iff_ne, ne_eq]
    rw [mem_nub ys x]
    constructor
    · rintro (h | ⟨h, _⟩)
      · exact Or.inl h
      · exact Or.inr h
    · rintro (h | h)
      · exact Or.inl h
      · by_cases hxy : x = y
        · exact Or.inl hxy
        · exact Or.inr ⟨h, hxy⟩

theorem nodup_nub : ∀ (l : List Name), (nub l).Nodup
  | [] => by simp [nub]
  | y :: ys => by
    simp only [nub, List.nodup_cons, List.mem_filter, bne_iff_ne, ne_eq, not_true_eq_false, and_false,
      not_false_eq_true, true_and]
    exact (nodup_nub ys).filter _

/-- **C12, rows and cols**: exactly the values that occur, each once, in case-insensitive alphabetical order -/
theorem C12_names (values : List Name) :
    (∀ x, x ∈ distinctSorted values ↔ x ∈ values) ∧ (distinctSorted values).Nodup ∧
    (distinctSorted values).Pairwise (fun a b => pairLe a b = true) := by
  have hperm : (distinctSorted values).Perm (nub values) := List.mergeSort_perm _ _
  refine ⟨?_, ?_, ?_⟩
  · intro x; rw [hperm.mem_iff, mem_nub]
  · exact hperm.nodup_iff.mpr (nodup_nub values)
  · exact List.pairwise_mergeSort (fun a b c => pairLe_trans a b c) (fun a b => pairLe_total a b) _

/-- two duplicate-free lists with the same members, both sorted, are equal -/
theorem sorted_unique : ∀ (l₁ l₂ : List Name), l₁.Nodup → l₂.Nodup → (∀ x, x ∈ l₁ ↔ x ∈ l₂) →
    l₁.Pairwise (fun a b => pairLe a b = true) → l₂.Pairwise (fun a b => pairLe a b = true) → l₁ = l₂
  | [], [], _, _, _, _, _ => rfl
  | [], y :: ys, _, _, h, _, _ => by have := (h y).mpr (by simp); simp at this
  | x :: xs, [], _, _, h, _, _ => by have := (h x).mp (by simp); simp at this
  | x :: xs, y :: ys, n1, n2, h, s1, s2 => by
    rw [List.nodup_cons] at n1 n2
    rw [List.pairwise_cons] at s1 s2
    have hxy : x = y := by
      have hx : x ∈ y :: ys := (h x).mp (by simp)
      have hy : y ∈ x :: xs := (h y).mpr (by simp)
      rcases List.mem_cons.mp hx with e | hx'
      · exact e
      · rcases List.mem_cons.mp hy with e | hy'
        · exact e.symm
        · exact pairLe_antisymm x y (s1.1 y hy') (s2.1 x hx')
    subst hxy
    congr 1
    apply sorted_unique xs ys n1.2 n2.2 _ s1.2 s2.2
    intro z
    constructor
    · intro hz
      have := (h z).mp (by simp [hz])
      rcases List.mem_cons.mp this with e | h'
      · subst e; exact absurd hz n1.1
      · exact h'
    · intro hz
      have := (h z).mpr (by simp [hz])
      rcases List.mem_cons.mp this with e | h'
      · subst e; exact absurd hz n2.1
      · exact h'

/-- **order-free**: the result depends only on the SET of values, not on the order or multiplicity in
which they are enumerated -/
theorem C12_names_order_free (v₁ v₂ : List Name) (h : ∀ x, x ∈ v₁ ↔ x ∈ v₂) :
    distinctSorted v₁ = distinctSorted v₂ := by
  obtain ⟨m1, n1, s1⟩ := C12_names v₁
  obtain ⟨m2, n2, s2⟩ := C12_names v₂
  exact sorted_unique _ _ n1 n2 (fun x => by rw [m1, m2, h]) s1 s2

/-- `Dutch` < `dUTCH` (same lower-cased form, ordered by the names), `abc` before both -/
example : pairLe ([100, 117], [68, 117]) ([100, 117], [100, 85]) = true ∧
    pairLe ([100, 117], [100, 85]) ([100, 117], [68, 117]) = false ∧
    pairLe ([97], [97]) ([100, 117], [68, 117]) = true := by decide

/-- the enumeration order of the values does not matter (instance of `C12_names_order_free`) -/
example : distinctSorted [([100, 117], [68, 117]), ([97], [97]), ([100, 117], [68, 117])] =
    distinctSorted [([97], [97]), ([100, 117], [68, 117])] :=
  C12_names_order_free _ _ (by
    intro x
    simp only [List.mem_cons, List.not_mem_nil, or_false]
    constructor
    · rintro (h | h | h)
      · exact Or.inr h
      · exact Or.inl h
      · exact Or.inr h
    · rintro (h | h)
      · exact Or.inr (Or.inl h)
      · exact Or.inl h)

end Verif.Names
